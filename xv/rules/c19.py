"""C19 — cached bytecode never changes what a script does.

Decided: every ``marshal.load`` is dominated by a successful version check on the
same handle and sits in a handler that turns any exception into "do not use the
cache"; writer's and reader's header agree; the script cache is used only if the
cache file is not older than the source; all file-system calls on the *cache* file
in the check functions are inside an ``OSError`` handler (unreadable is not fatal);
on a miss the full source is compiled and *that* code is executed; the code-cache
key is a digest of the whole text; and every input of the memoised compilation that
can change its result is part of the key (or a constant).  Not decided: mtime
granularity, md5 collisions, marshal's own robustness.
"""

from __future__ import annotations

import ast

from .common import *

CC = "xonsh/codecache.py"
CHECKS = ("script_cache_check", "code_cache_check")
CATCH_OK = {None, "Exception", "BaseException"}


def _handler_catches(h, names):
    t = h.type
    if t is None:
        return True
    elts = t.elts if isinstance(t, ast.Tuple) else [t]
    got = {dotted(e).split(".")[-1] if dotted(e) else "?" for e in elts}
    return bool(got & names)


def _enclosing_try_with_handler(node, names, stop):
    """Innermost enclosing Try (below ``stop``) whose *body* contains node and which has a
    handler catching one of ``names``."""
    child = node
    for a in ancestors(node):
        if a is stop:
            break
        if isinstance(a, ast.Try) and any(child is s for s in a.body):
            for h in a.handlers:
                if _handler_catches(h, names):
                    return a, h
        child = a
    return None, None


TABLE = "_CHARACTER_MAP"
PATH = ("path",)  # role of a parameter: it holds the source file's path


def _bind_args(callee, call):
    """parameter -> argument expression of ``call`` (defaults for omitted parameters)"""
    a = callee.args
    pos = [x.arg for x in a.posonlyargs + a.args]
    if any(isinstance(x, ast.Starred) for x in call.args) or any(k.arg is None for k in call.keywords) or len(call.args) > len(pos):
        raise AnalysisError(f"{CC}: cannot bind the arguments of `{short(call, 60)}` to {callee.name}'s parameters")
    out = dict(zip(pos, call.args))
    for k in call.keywords:
        out[k.arg] = k.value
    for p_, d in list(zip(reversed(pos), reversed(a.defaults))) + [(k.arg, d) for k, d in zip(a.kwonlyargs, a.kw_defaults) if d is not None]:
        out.setdefault(p_, d)
    return out


def _elem_iter(fn, defs, name_node):
    """the expression whose elements the name at ``name_node`` ranges over (the comprehension generator or the
    for loop that binds it), else None"""
    for a in ancestors(name_node):
        if isinstance(a, (ast.ListComp, ast.SetComp, ast.GeneratorExp, ast.DictComp)):
            for g in a.generators:
                if isinstance(g.target, ast.Name) and g.target.id == name_node.id:
                    return g.iter
        if a is fn:
            break
    return element_source(fn, name_node.id, defs)


def _reaches_return(fn, seeds):
    """forward taint inside ``fn``: does a value computed from one of the nodes ``seeds`` (ids) get into a returned
    value - through locals, in-place updates (`o[-1] = ..`, `o.append(..)`, `o += ..`) and loops"""
    tainted = set()

    def hot(e):
        return e is not None and any(id(n) in seeds or (isinstance(n, ast.Name) and n.id in tainted) for n in ast.walk(e))

    grew = True
    while grew:
        grew = False
        for s in walk_local(fn):
            tg = []
            if isinstance(s, ast.Assign) and hot(s.value):
                tg = s.targets
            elif isinstance(s, (ast.AugAssign, ast.AnnAssign, ast.NamedExpr)) and hot(s.value):
                tg = [s.target]
            elif isinstance(s, (ast.For, ast.AsyncFor)) and hot(s.iter):
                tg = [s.target]
            elif isinstance(s, ast.Expr) and isinstance(s.value, ast.Call) and isinstance(s.value.func, ast.Attribute) and any(hot(x) for x in list(s.value.args) + [k.value for k in s.value.keywords]):
                tg = [s.value.func.value]
            for t in tg:
                for n in ast.walk(t):
                    if isinstance(n, ast.Name) and n.id not in tainted:
                        tainted.add(n.id)
                        grew = True
    return any(isinstance(s, ast.Return) and hot(s.value) for s in walk_local(fn))


def _table_lookups(fn, q, defs):
    """(node, key, default) for every place where ``fn`` consults the mangling table: `M.get(k, d)` and
    `M[k] if k in M else d`.  Any other use of the table is an unknown shape."""
    tbl = {TABLE} | names_bound_to_text(fn, TABLE, defs)
    is_tbl = lambda e: isinstance(e, ast.Name) and e.id in tbl
    out, used = [], set()
    for n in walk_local(fn):
        if isinstance(n, ast.Call) and isinstance(n.func, ast.Attribute) and n.func.attr == "get" and is_tbl(n.func.value) and not n.keywords and 1 <= len(n.args) <= 2:
            out.append((n, n.args[0], n.args[1] if len(n.args) == 2 else None))
            used.add(id(n.func.value))
        elif isinstance(n, ast.IfExp) and isinstance(n.test, ast.Compare) and len(n.test.ops) == 1 and isinstance(n.test.ops[0], (ast.In, ast.NotIn)) and is_tbl(n.test.comparators[0]):
            hit, miss = (n.body, n.orelse) if isinstance(n.test.ops[0], ast.In) else (n.orelse, n.body)
            if isinstance(hit, ast.Subscript) and is_tbl(hit.value) and same_text(hit.slice, n.test.left):
                out.append((n, n.test.left, miss))
                used |= {id(n.test.comparators[0]), id(hit.value)}
    for n in walk_local(fn):
        if is_tbl(n) and isinstance(n.ctx, ast.Load) and id(n) not in used:
            par = parent(n)
            if isinstance(par, ast.Assign) and par.value is n:
                continue  # a local alias of the table
            raise AnalysisError(f"{CC}:{q}: the path-mangling table is consulted in a way this rule does not know: `{short(stmt_of(n), 80)}`")
    return out


def _script_name_mangling(ctx, mod, pname, path_param, consts):
    """R6 'cache-renamer-shape', decided on whichever function computes the script-cache file name: ``pname`` (the function
    whose result the users hand to script_cache_check as the cache file) together with the module's helpers it calls.
    ``path_param``: its parameter that receives the source path; ``consts``: its parameters bound to constants there."""
    fns = {pname: mod.get(pname)}
    edges = []
    todo = [(pname, 0)]
    while todo:
        q, d = todo.pop(0)
        for c in calls_in(fns[q]):
            nm = call_name(c)
            if nm and "." not in nm and nm != TABLE and mod.has(nm) and isinstance(mod.get(nm), FuncTypes):
                edges.append((q, c, nm))
                if nm not in fns and d < 3:
                    fns[nm] = mod.get(nm)
                    todo.append((nm, d + 1))
    defs = {q: df.all_defs(f) for q, f in fns.items()}
    # what each parameter holds: the source path / a constant, pushed down the calls from the producer
    env = {q: {} for q in fns}
    env[pname] = dict(consts)
    env[pname][path_param] = PATH
    for _ in range(4):
        for f_, c, h in edges:
            if h not in fns or h == pname or f_ == h:
                continue
            for p_, e in _bind_args(fns[h], c).items():
                v = None
                if isinstance(e, ast.Constant):
                    v = ("const", e.value)
                elif isinstance(e, ast.Name) and len(defs[f_].get(e.id, [])) == 1 and defs[f_][e.id][0].kind == "param" and env[f_].get(e.id, PATH)[0] == "const":
                    v = env[f_][e.id]
                elif any(k == "param" and env[f_].get(x) == PATH for k, x in df.leaves(defs[f_], e)):
                    v = PATH
                if v is not None and env[h].get(p_, v) != v:
                    v = ("unknown",)
                if v is not None:
                    env[h][p_] = v

    def flows(q, seeds, seen):
        if not _reaches_return(fns[q], seeds):
            return False
        return q == pname or any(flows(f_, {id(c)}, seen | {q}) for f_, c, h in edges if h == q and f_ not in seen and f_ != q)

    def splitter(e):
        # a call of one of the module's functions that takes a path apart with os.path.split (all its components)
        nm = call_name(e) if isinstance(e, ast.Call) else None
        return bool(nm) and "." not in nm and mod.has(nm) and isinstance(mod.get(nm), FuncTypes) and any(call_name(c) == "os.path.split" for c in calls_in(mod.get(nm))) and len(e.args) >= 1

    n_look = 0
    for q, fn in fns.items():
        for node, key, default in _table_lookups(fn, q, defs[q]):
            n_look += 1
            why = []
            if not (default is not None and same_text(key, default)):
                why.append(f"a character without an entry becomes `{unparse(default) if default is not None else None}`, not itself")
            comp = resolve_copy_(defs[q], _elem_iter(fn, defs[q], key)) if isinstance(key, ast.Name) else None
            parts = resolve_copy_(defs[q], _elem_iter(fn, defs[q], comp)) if isinstance(comp, ast.Name) else None
            if not isinstance(comp, ast.Name):
                why.append(f"`{unparse(key)}` is not each character of a path component")
            elif not splitter(parts):
                why.append(f"`{unparse(comp)}` does not range over all components of the split path ({unparse(parts) if parts is not None else 'not a loop variable'})")
            else:
                lv = df.leaves(defs[q], parts.args[0])
                reals = [c for c in calls_in(fn) if call_name(c) in ("os.path.realpath", "realpath") and c.args and any(k == "param" and env[q].get(x) == PATH for k, x in df.leaves(defs[q], c.args[0]))]
                if not (reals and {("call", call_name(c)) for c in reals} & lv):
                    why.append(f"the path that is split, `{unparse(parts.args[0])}`, is not the real path of the source file")
                else:
                    # the real path is taken when the name is computed for a script (the constants the users pass)
                    def atoms(e):
                        if isinstance(e, ast.Name) and env[q].get(e.id, PATH)[0] == "const" and all(d.kind == "param" for d in defs[q].get(e.id, [])):
                            return bool(env[q][e.id][1])
                        return None

                    cfg = CFG(fn)
                    taken = False
                    for c in reals:
                        vals = [(ev3(e, atoms), pol, e) for e, pol in facts_at(cfg, node_in(cfg, stmt_of(c))[0])]
                        und = [unparse(e) for v, pol, e in vals if v is None]
                        if und:
                            raise AnalysisError(f"{CC}:{q}: cannot decide whether `{short(c, 50)}` is evaluated for a script (guard {und})")
                        taken = taken or all(v == pol for v, pol, e in vals)
                    if not taken:
                        why.append("the real path is not taken when the name of a script's entry is computed")
            if not flows(q, {id(node)}, frozenset()):
                why.append(f"the mangled text does not reach the value {pname} returns")
            ctx.ob("R6", f"{CC}:{q}", "every character of every path component of the real path goes through the map (unmapped characters unchanged)", not why, key="cache-renamer-shape", where=loc(node), detail="; ".join(why) or None)
    if not n_look:
        ctx.ob("R6", f"{CC}:{pname}", "every character of every path component of the real path goes through the map (unmapped characters unchanged)", False, key="cache-renamer-shape", where=loc(fns[pname]), detail=f"neither {pname} nor a helper it calls ({sorted(set(fns) - {pname})}) consults {TABLE}")


def resolve_copy_(defs, e):
    return None if e is None else df.resolve_copy(defs, e)


def check(ctx):
    ctx.rule("R10", "a cached code object is used only straight out of the validating loader of *this* call: every code object a user of the script cache (codecache.run_script_with_cache, the import hook) returns or runs without compiling is the result of script_cache_check in the same call - none is served from state kept on an object or in a module (a memo of unmarshalled entries skips the source-mtime comparison: edit + reload runs the old code)", floor=2)
    _no_memo_of_entries(ctx)
    try:
        _check_main(ctx)
    except AnalysisError as e_:
        if not ctx.violations:
            raise
        ctx.note(f"analysis not completed next to reported violations: {e_}")


def _no_memo_of_entries(ctx):
    n = 0
    for rel in (CC, "xonsh/imphooks.py"):
        mod = ctx.repo.module(rel)
        for q, fn0 in mod.functions():
            if q == "script_cache_check":
                continue
            fn = flat(ctx, fn0, 2, skip=("script_cache_check", "compile_code", "update_cache", "get_source", "run_compiled_code"))
            if not any((call_name(c) or "").split(".")[-1] == "script_cache_check" for c in calls_in(fn)):
                continue
            if any(getattr(stmt_of(c), "_xv_from", None) for c in calls_in(fn) if (call_name(c) or "").split(".")[-1] == "script_cache_check") and not any((call_name(c) or "").split(".")[-1] == "script_cache_check" for c in calls_in(fn0)):
                pass  # the loader is called in a helper: judged here, in the caller's view
            defs = df.all_defs(fn)
            # names that hold a code object: second element of the loader's result, results of compile*
            def roots(e, depth=0, seen=frozenset()):
                """where a value is *held*: state roots (self.X / module-level containers) reached through copies, item / attribute
                access and dict lookups - the arguments of ordinary calls are inputs, not holders"""
                if depth > 8 or e is None:
                    return set()
                if isinstance(e, ast.Name):
                    if e.id in seen:
                        return set()
                    ds = [d for d in defs.get(e.id, []) if d.value is not None]
                    if not ds:
                        return {"module:" + e.id} if e.id in mod.assigns and e.id.startswith("_") else set()
                    out = set()
                    for d in ds:
                        out |= roots(d.value, depth + 1, seen | {e.id})
                    return out
                if isinstance(e, ast.Attribute):
                    return {"state:" + unparse(e)} if unparse(e.value) == "self" else roots(e.value, depth + 1, seen)
                if isinstance(e, (ast.Subscript, ast.Starred)):
                    return roots(e.value, depth + 1, seen)
                if isinstance(e, ast.Call) and isinstance(e.func, ast.Attribute) and e.func.attr in ("get", "pop", "setdefault", "__getitem__", "copy"):
                    return roots(e.func.value, depth + 1, seen)
                if isinstance(e, (ast.Tuple, ast.List)):
                    out = set()
                    for x in e.elts:
                        out |= roots(x, depth + 1, seen)
                    return out
                if isinstance(e, ast.IfExp):
                    return roots(e.body, depth + 1, seen) | roots(e.orelse, depth + 1, seen)
                return set()

            for r in [r for r in walk_local(fn) if isinstance(r, ast.Return) and r.value is not None and not (isinstance(r.value, ast.Constant))]:
                state = sorted(roots(r.value))
                n += 1
                ctx.ob("R10", f"{rel}:{q}", f"`{short(r, 50)}`: what is handed out is not held in state kept across calls", not state, key=f"{q}|code-object-from-state", where=loc(r), detail=f"held in {state}" if state else None)
    if n < 2:
        raise AnalysisError(f"{CC}: users of script_cache_check not found ({n})")


def _check_main(ctx):
    ctx.not_decided += [
        "mtime granularity (edit within the same timestamp tick)",
        "md5 collisions; marshal's robustness on corrupt streams that happen to decode",
        "that update_cache's in-place write is atomic (a truncated entry is handled by the guarded load)",
    ]
    ctx.rule("R1", "every marshal.load is dominated by a passed _check_cache_versions on the same handle and enclosed in a handler that maps any exception to 'cache not used'; header writer and reader agree", floor=6)
    ctx.rule("R2", "the script cache is used only if mtime(cache) >= mtime(source)", floor=1)
    ctx.rule("R3", "all file-system calls on the cache file inside the check functions are inside an OSError handler (unreadable is not fatal)", floor=3)
    ctx.rule("R4", "on a miss the complete source is compiled and the executed code is either the validated cache entry or that compilation", floor=6)
    ctx.rule("R5", "every input of the memoised compilation that can change its result is part of the cache key or a constant", floor=4)
    ctx.rule("R6", "the code-cache name is a digest of the complete text", floor=1)
    ctx.rule("R8", "the entry writer starts from an empty file (truncating open, or O_TRUNC/O_EXCL, or temp + replace): an interrupted rewrite leaves a short entry that the guarded load rejects, never a new prefix glued to the old entry's tail", floor=1)
    ctx.rule("R7", "a cache entry is stored before the compiled code runs: nothing that executes user code lies between reading the source and stamping the entry (the entry's time is compared with the source's)", floor=2)

    mod = ctx.repo.module(CC)
    loads_seen = 0
    for m in ctx.repo.modules("xonsh", containing="marshal"):
        for q, fn in m.functions():
            for c in calls_in(fn):
                if call_name(c) in ("marshal.load", "marshal.loads"):
                    loads_seen += 1
                    ctx.ob("R1", f"{m.rel}:{q}", "marshal.load is called only by the two cache check functions (or a helper only they call)", m.rel == CC and (q in CHECKS or only_called_from(ctx.repo, m, q, set(CHECKS))), key=f"{m.rel}:{q}|foreign-marshal-load", where=loc(c))
    if loads_seen < 1:
        raise AnalysisError("no marshal.load call site found")

    ccv = mod.func("_check_cache_versions")
    upd = mod.func("update_cache")
    # header agreement: names compared by the reader, in order == names written by the writer, in order
    def _names(node):
        return [n.id for n in ast.walk(node) if isinstance(n, ast.Name) and n.id.isupper()]

    rd = []
    for n in walk_local(ccv):
        if isinstance(n, ast.Compare):
            rd += _names(n)
    rd_sorted = sorted(
        [(n.lineno, n.col_offset, _names(n)) for n in walk_local(ccv) if isinstance(n, ast.Compare)]
    )
    rd = [x for _, _, ns in rd_sorted for x in ns]
    wr_calls = sorted(
        [(c.lineno, c.col_offset, _names(c)) for c in calls_in(upd) if last_attr(c) == "write"]
    )
    wr = [x for _, _, ns in wr_calls for x in ns]
    ctx.ob("R1", f"{CC}:_check_cache_versions", f"reader compares the header fields the writer emits, in the same order (writer {wr}, reader {rd})", bool(rd) and rd == wr, key="header-mismatch", where=loc(ccv))
    # the reader returns False on the first mismatch, and its final value is the second comparison
    for n in walk_local(ccv):
        if isinstance(n, ast.Return):
            v = n.value
            ok = (isinstance(v, ast.Constant) and v.value is False) or isinstance(v, ast.Compare) or (isinstance(v, ast.BoolOp) and isinstance(v.op, ast.And))
            ctx.ob("R1", f"{CC}:_check_cache_versions", f"`{short(n)}` is a comparison result or False (never constant True)", ok, key=f"ccv|return|{unparse(v)}", where=loc(n))
    # the Python stamp must distinguish pre-releases: the cache *file name* (sys.implementation.cache_tag)
    # is the same for 3.x.y a/b/rc/final builds, whose bytecode may differ
    pm = ctx.repo.module("xonsh/platform.py")
    pv = pm.func("PYTHON_VERSION_INFO_BYTES") if pm.has("PYTHON_VERSION_INFO_BYTES") else None
    if pv is None:
        raise AnchorMissing("xonsh/platform.py: PYTHON_VERSION_INFO_BYTES")
    full = False
    sliced = False
    for r_ in [n for n in walk_local(pv) if isinstance(n, ast.Return)]:
        for n in ast.walk(r_.value):
            if isinstance(n, ast.Attribute) and unparse(n) == "sys.version_info":
                par = parent(n)
                if isinstance(par, (ast.Subscript, ast.Attribute)) and par.value is n:
                    sliced = True  # sys.version_info[:3] / sys.version_info.major
                else:
                    full = True
            if isinstance(n, ast.Name) and n.id == "PYTHON_VERSION_INFO":
                sliced = True  # the three-component tuple
            if isinstance(n, ast.Attribute) and unparse(n) in ("importlib.util.MAGIC_NUMBER",):
                full = True
    ctx.ob("R1", "xonsh/platform.py:PYTHON_VERSION_INFO_BYTES", "the Python stamp written into / compared with the cache header covers the complete sys.version_info (releaselevel and serial included), not only major.minor.micro", full and not sliced, key="python-stamp-truncated", where=loc(pv))
    marshal_dump = [c for c in calls_in(upd) if call_name(c) == "marshal.dump"]
    ctx.ob("R1", f"{CC}:update_cache", "the writer emits the header before marshal.dump", bool(marshal_dump) and bool(wr_calls) and all(w[0] < marshal_dump[0].lineno for w in wr_calls), key="writer-order")

    cache_params = {}
    for q in CHECKS:
        fn = flat(ctx, mod.func(q), depth=2, skip=("_check_cache_versions",))
        st = f"{CC}:{q}"
        cfg = CFG(fn)
        defs = df.all_defs(fn)
        params = [a.arg for a in fn.args.args]
        loads = [c for c in calls_in(fn) if call_name(c) == "marshal.load"]
        if not loads:
            raise AnchorMissing(f"{st}: no marshal.load")
        for c in loads:
            handle = c.args[0] if c.args else None
            stmt = stmt_of(c)
            node = node_in(cfg, stmt)[0]
            facts = facts_at(cfg, node)
            ok = any(
                isinstance(e, ast.Call) and call_name(e) == "_check_cache_versions" and e.args and same_text(e.args[0], handle) and pol
                for e, pol in facts
            )
            ctx.ob("R1", st, f"{short(c)} is reached only after _check_cache_versions({unparse(handle)}) returned true", ok, key=f"{q}|load-without-version-check", where=loc(c), detail="facts: " + "; ".join(facts_text(facts)))
            tr, h = _enclosing_try_with_handler(c, {"Exception", "BaseException"}, fn)
            ctx.ob("R1", st, f"{short(c)} is enclosed in `try: ... except Exception`", tr is not None, key=f"{q}|load-unguarded", where=loc(c))
            if tr is not None:
                # through the handler, no return can report "use the cache": decided by path enumeration with forward
                # substitution (flags, tuples handed back by a helper and early returns all reduce to the returned value)
                from ..engine import dtable as _dt

                bad = None
                n_hpaths = 0
                for pth in _dt.simplified(_dt.paths(fn, loops="skip")):
                    via_handler = any(isinstance(e, ast.Name) and e.id.startswith("<exception:") and ("Exception" in e.id or "any" in e.id) for e, pol in pth.conds)
                    if not via_handler or pth.outcome != "return":
                        continue
                    n_hpaths += 1
                    v = pth.value
                    first = v.elts[0] if isinstance(v, ast.Tuple) and v.elts else v
                    if not (isinstance(first, ast.Constant) and first.value is False):
                        bad = pth
                if n_hpaths == 0:
                    raise AnalysisError(f"{st}: no return path through the unmarshal handler enumerated")
                ctx.ob("R1", st, "after a failed load every return reports 'cache not used'", bad is None, key=f"{q}|handler-returns-usable", where=loc(h), detail=repr(bad)[:300] if bad else None)
            # ---- R3: fs calls on the cache file are inside an OSError handler
            opens = [o for o in calls_in(fn) if call_name(o) in ("open", "io.open") and o.args]
            cache_param = None
            for o in opens:
                wdefs = [d for n_, ds in defs.items() for d in ds if d.kind == "with" and d.value is o and isinstance(handle, ast.Name) and n_ == handle.id]
                if wdefs and isinstance(o.args[0], ast.Name) and o.args[0].id in params:
                    cache_param = o.args[0].id
            if cache_param is None:
                raise AnalysisError(f"{st}: cannot identify the cache-file parameter (handle {unparse(handle)})")
            cache_params[q] = cache_param
            if q == "script_cache_check":
                src_params = [p for p in params if p != cache_param]
                # ---- R2
                ok2 = False
                why = "no mtime comparison dominates the load"
                for e, pol in facts:
                    if isinstance(e, ast.Compare) and len(e.ops) == 1 and "st_mtime" in unparse(e):
                        l, op, r = e.left, e.ops[0], e.comparators[0]
                        if not pol:
                            # not (a < b)  ==  a >= b
                            inv = {ast.Lt: ast.GtE, ast.LtE: ast.Gt, ast.Gt: ast.LtE, ast.GtE: ast.Lt}
                            op = inv.get(type(op), type(None))()
                        lc, rc = cache_param in df.names_read(l), cache_param in df.names_read(r)
                        ls, rs = any(p in df.names_read(l) for p in src_params), any(p in df.names_read(r) for p in src_params)
                        if lc and rs and not ls and not rc and isinstance(op, (ast.Gt, ast.GtE)):
                            ok2 = True
                        elif ls and rc and not lc and not rs and isinstance(op, (ast.Lt, ast.LtE)):
                            ok2 = True
                        else:
                            why = f"comparison `{unparse(e)}` (polarity {pol}) does not say cache-not-older-than-source"
                ctx.ob("R2", st, "marshal.load is reached only if st_mtime(cache) >= st_mtime(source)", ok2, key="script|mtime-direction", where=loc(c), detail=None if ok2 else why)
            for f in calls_in(fn):
                nm = call_name(f) or ""
                if nm in ("open", "io.open", "os.stat", "os.path.getmtime", "os.path.getsize") and f.args and cache_param in df.names_read(f.args[0]):
                    tr2, _ = _enclosing_try_with_handler(f, {"OSError", "Exception", "BaseException", "IOError", "EnvironmentError"}, fn)
                    ctx.ob("R3", st, f"`{short(f, 50)}` on the cache file is inside a handler for OSError", tr2 is not None, key=f"{q}|cache-fs-call-unguarded|{nm}", where=loc(f))

    # ---- R4/R5/R6: users of the cache
    users = []
    for m in ctx.repo.modules("xonsh", containing=CHECKS):
        for q, fn in m.functions():
            for c in calls_in(fn):
                if call_name(c) in CHECKS or (call_name(c) or "").split(".")[-1] in CHECKS:
                    users.append((m, q, fn, c))
    if len(users) < 4:
        raise AnalysisError(f"expected >= 4 users of the cache check functions, found {len(users)}")
    producers = set()
    for m, q, fn, chk in users:
        st = f"{m.rel}:{q}"
        # helper-transparent view (a compile-and-store tail moved into a helper is still this function's miss path)
        fn = flat(ctx, fn, depth=2, skip=tuple(CHECKS) + ("should_use_cache", "get_cache_filename", "compile_code", "update_cache", "compile", "get_source", "print_exception"))
        same = [c_ for c_ in calls_in(fn) if (c_.lineno, c_.col_offset) == (chk.lineno, chk.col_offset) and call_name(c_) == call_name(chk) and not getattr(stmt_of(c_), "_xv_call_marker", False)]
        if len(same) != 1:
            raise AnalysisError(f"{st}: cache check call not found again in the helper-transparent view")
        chk = same[0]
        defs = df.all_defs(fn)
        cfg = CFG(fn)
        kind = (call_name(chk) or "").split(".")[-1]
        # names bound by the check: (flag, code)
        flag = code = None
        for n_, ds in defs.items():
            for d in ds:
                if d.kind == "unpack" and d.value is chk:
                    if d.index == 0:
                        flag = n_
                    elif d.index == 1:
                        code = n_
        if flag is None or code is None:
            raise AnalysisError(f"{st}: result of {kind} is not unpacked into (flag, code)")
        if kind == "script_cache_check":
            # who computes the script-cache file name: the call whose result is handed over as the cache file
            bound = _bind_args(mod.get(kind), chk)
            cache_arg = bound.get(cache_params[kind])
            src_args = [e for p_, e in bound.items() if p_ != cache_params[kind]]
            found = 0
            for arm in value_arms(defs, cache_arg) if cache_arg is not None else []:
                nm = (call_name(arm) or "").split(".")[-1] if isinstance(arm, ast.Call) else ""
                if nm and mod.has(nm) and isinstance(mod.get(nm), FuncTypes):
                    pb = _bind_args(mod.get(nm), arm)
                    pp = [p_ for p_, e in pb.items() if any(same_text(e, s_) for s_ in src_args)]
                    if len(pp) != 1:
                        raise AnalysisError(f"{st}: which argument of `{short(arm, 60)}` is the source path")
                    producers.add((nm, pp[0], tuple(sorted((p_, ("const", e.value)) for p_, e in pb.items() if isinstance(e, ast.Constant)))))
                    found += 1
            if not found:
                raise AnalysisError(f"{st}: cannot see what computes the cache file name `{unparse(cache_arg) if cache_arg is not None else None}` handed to {kind}")
        compiles = [c for c in calls_in(fn) if (call_name(c) or "") in ("compile_code", "self.execer.compile", "execer.compile")]
        if not compiles:
            raise AnalysisError(f"{st}: no compile call on the miss path")
        # R4a: every use of the cached code object is guarded by the flag being true,
        #      or the code name is re-bound by the compile on the not-flag path
        code_defs = defs.get(code, [])
        other = [d for d in code_defs if not (d.kind == "unpack" and d.value is chk)]
        for d in other:
            okd = d.kind == "assign" and (d.value in compiles or const_value(d.value, 0) is None)
            if d.kind == "unpack" and isinstance(d.value, (ast.Tuple, ast.List)) and d.index is not None and d.index < len(d.value.elts):
                # `flag, code = (False, None)`: the not-consulted arm of a conditional unpacking
                okd = const_value(d.value.elts[d.index], 0) is None
            ctx.ob("R4", st, f"`{short(d.stmt, 70)}`: the code to run comes from the cache check or from the compilation", okd, key=f"{q}|code-source|{unparse(d.value)[:40]}", where=loc(d.stmt))
        for cc in compiles:
            node = node_in(cfg, stmt_of(cc))[0]
            facts = facts_at(cfg, node)
            # compile happens whenever the flag is false: i.e. it is NOT guarded by anything that
            # could be false while flag is false — accept guards: not flag / (use_cache false paths)
            txt = facts_text(facts)
            ctx.note(f"{st}: compile guarded by [{'; '.join(txt)}]")
        # R4b: use of cached code (return code / run_compiled_code(code)) reachable from check with flag False
        #      only through a compile.  Path query: from the check statement, avoiding compile statements
        #      and avoiding the *true* edge of tests on the flag, no sink using `code` is reachable.
        chk_nodes = node_in(cfg, stmt_of(chk))
        comp_stmts = {id(stmt_of(c)) for c in compiles}

        def is_flag_test(n):
            return n.kind == "if" and any(unparse(e) == flag for e, _ in implied_facts(n.ast.test, True))

        def skip(a, b, l):
            # edges on which the flag is known to be true are the legitimate "use the cache" paths
            if a.kind == "if" and l in ("true", "false"):
                for e, pol in implied_facts(a.ast.test, l == "true"):
                    if unparse(e) == flag and pol:
                        return True
            return False

        seen = cfg.reach(chk_nodes, stop=lambda n: n.ast is not None and id(n.ast) in comp_stmts, skip_edge=skip)
        bad = None
        for n in seen:
            if n.kind != "stmt" or id(n.ast) in comp_stmts:
                continue
            a = n.ast
            uses = False
            if isinstance(a, ast.Return) and a.value is not None and code in df.names_read(a.value):
                uses = True
            for c in calls_in(a):
                if (call_name(c) or "").endswith("run_compiled_code") and any(code in df.names_read(x) for x in c.args):
                    uses = True
            if uses:
                bad = n
                break
        ctx.ob("R4", st, f"with `{flag}` false, `{code}` is used only after the compilation re-bound it", bad is None, key=f"{q}|stale-code-used", where=loc(chk), path=cfg.fmt_path(cfg.path_to(seen, bad)) if bad else None)
        # R5: key completeness.  Context arguments of the compile call vs. the key.
        for cc in compiles:
            nm = call_name(cc)
            if nm == "compile_code":
                names = ["filename", "code", "execer", "glb", "loc", "mode"]
                argmap = {names[i]: a for i, a in enumerate(cc.args)}
            else:
                argmap = {"code": cc.args[0]} if cc.args else {}
            for k in cc.keywords:
                argmap[{"glbs": "glb", "locs": "loc"}.get(k.arg, k.arg)] = k.value
            for role in ("glb", "mode"):
                a = argmap.get(role)
                if a is None:
                    continue
                a_res = df.resolve_copy(defs, a)
                constant = isinstance(a_res, ast.Constant) or (isinstance(a_res, ast.Dict) and not a_res.keys)
                if not constant and isinstance(a_res, ast.Name) and any(d.kind == "param" for d in defs.get(a_res.id, [])) and len(defs[a_res.id]) == 1:
                    # a parameter that every caller in the repository binds to one constant is a constant
                    vals = callsite_values(ctx.repo, fn, a_res.id)
                    cs = {repr(const_value(v, ast)) if isinstance(v, ast.Constant) else "?" + unparse(v) for _, v in vals}
                    if vals and len(cs) == 1 and not next(iter(cs)).startswith("?"):
                        constant = True
                        ctx.note(f"{st}: parameter {a_res.id} is {next(iter(cs))} at all {len(vals)} call sites")
                if kind == "script_cache_check" and role == "mode":
                    # scripts: mode decides the cache *store* via should_use_cache only; the script key
                    # (file name) is mode-independent, compile mode must be constant or part of key
                    pass
                # is it part of the key?  key = argument(s) of the check call, traced to leaves
                key_leaves = set()
                for ka in chk.args:
                    key_leaves |= df.leaves(defs, ka)
                a_leaves = {l for l in df.leaves(defs, a) if l[0] in ("param", "attr", "name")}
                in_key = bool(a_leaves) and a_leaves <= key_leaves
                what = {"glb": "the names bound in the execution context (context-sensitive parsing)", "mode": "the compile mode"}[role]
                ctx.ob(
                    "R5",
                    st,
                    f"{what} `{unparse(a)}` passed to {nm} is a constant or part of the cache key",
                    constant or in_key,
                    key=f"{q}|key-misses-{role}",
                    where=loc(cc),
                )
    # R6
    ccn = mod.func("code_cache_name")
    defs = df.all_defs(ccn)
    p0 = ccn.args.args[0].arg
    hcalls = [c for c in calls_in(ccn) if (call_name(c) or "").startswith("hashlib.")]
    if not hcalls:
        raise AnchorMissing(f"{CC}:code_cache_name no hashlib call")
    for c in hcalls:
        arg = c.args[0] if c.args else None
        sliced = [n for n in walk_local(ccn) if isinstance(n, ast.Subscript) and p0 in df.names_read(n)]
        lv = df.leaves(defs, arg) if arg is not None else set()
        ok = ("param", p0) in lv and not sliced
        ctx.ob("R6", f"{CC}:code_cache_name", f"{short(c, 60)} digests the whole `{p0}` (no slice/prefix)", ok, key="digest-partial", where=loc(c))
    # text -> bytes before hashing: the encoding must be injective and fixed.  utf-8/16/32 with strict or
    # surrogatepass are; a lossy handler (replace / ignore / xmlcharrefreplace ...) or a narrower codec maps
    # different texts to the same bytes, surrogateescape maps two escaped surrogates onto a real character, and a
    # codec read from run-time configuration is whatever the user sets.
    INJ_CODEC = {"utf-8", "utf8", "utf_8", "utf-16", "utf-32", "utf-16-le", "utf-16-be", "utf-32-le", "utf-32-be"}
    INJ_ERRORS = {"strict", "surrogatepass"}
    ccn_flat = flat(ctx, ccn, 2)
    encs = [c for c in calls_in(ccn_flat) if isinstance(c.func, ast.Attribute) and c.func.attr == "encode"] + [c for c in calls_in(ccn_flat) if call_name(c) in ("bytes", "codecs.encode", "os.fsencode")]
    for c in encs:
        if call_name(c) == "os.fsencode":
            enc_ok, why = False, "os.fsencode uses the locale's codec with surrogateescape"
        else:
            pos = list(c.args[1:] if call_name(c) in ("bytes", "codecs.encode") else c.args)
            codec = pos[0] if pos else kwarg(c, "encoding")
            errs = pos[1] if len(pos) > 1 else kwarg(c, "errors")
            cv = "utf-8" if codec is None else const_value(codec, None)
            ev = "strict" if errs is None else const_value(errs, None)
            enc_ok = isinstance(cv, str) and cv.lower() in INJ_CODEC and isinstance(ev, str) and ev in INJ_ERRORS
            why = None if enc_ok else f"codec={unparse(codec) if codec is not None else 'utf-8'} errors={unparse(errs) if errs is not None else 'strict'}"
        ctx.ob("R6", f"{CC}:code_cache_name", f"`{short(c, 60)}`: the text is turned into bytes by a fixed injective encoding (UTF-8/16/32, strict or surrogatepass) before it is hashed - two different code strings never hash the same bytes", enc_ok, key="digest-encoding-not-injective", where=loc(c), detail=why)
    # script-cache names: the path mangling must be injective (two scripts never share an entry).
    # The scheme is an escape code: every mapped character becomes <esc><char>; it is uniquely
    # decodable iff all images are distinct two-character strings starting with the escape character
    # and the escape character itself is mapped.
    try:
        from ..engine.fold import Folder, NotConstant
        from ..engine import dtable as _dt

        cm = mod.func("_CHARACTER_MAP")
        fld = Folder(mod)
        env_ = {}
        cmap = None
        for stt in cm.body:
            if isinstance(stt, ast.Assign) and isinstance(stt.targets[0], ast.Name):
                env_[stt.targets[0].id] = fld.fold(stt.value, dict(env_))
            elif isinstance(stt, ast.Expr) and isinstance(stt.value, ast.Call) and last_attr(stt.value) == "update" and isinstance(stt.value.func.value, ast.Name):
                env_[stt.value.func.value.id].update(fld.fold(stt.value.args[0], dict(env_)))
            elif isinstance(stt, ast.Return):
                cmap = fld.fold(stt.value, dict(env_))
        del _dt
    except (NotConstant, AnchorMissing, KeyError, AttributeError, TypeError) as e:
        raise AnalysisError(f"{CC}:_CHARACTER_MAP is no longer a foldable table: {e}")
    if not isinstance(cmap, dict) or len(cmap) < 10:
        raise AnalysisError(f"{CC}:_CHARACTER_MAP folded to {type(cmap).__name__}")
    vals = list(cmap.values())
    escs = {v[0] for v in vals if isinstance(v, str) and len(v) == 2}
    ok = len(escs) == 1 and all(isinstance(v, str) and len(v) == 2 for v in vals) and len(set(vals)) == len(vals) and next(iter(escs)) in cmap
    ctx.ob("R6", f"{CC}:_CHARACTER_MAP", f"the script-cache path mangling is an injective escape code ({len(cmap)} mapped characters, escape character {sorted(escs)} itself escaped)", ok, key="cache-name-mangling-not-injective", where=loc(cm))
    if not producers:
        raise AnalysisError(f"{CC}: no user of script_cache_check found whose cache file name could be traced")
    for pname, pparam, pconsts in sorted(producers, key=str):
        _script_name_mangling(ctx, mod, pname, pparam, dict(pconsts))
    # the digest's hexdigest is what is returned
    for n in walk_local(ccn):
        if isinstance(n, ast.Return):
            ok = any(c in hcalls for c in ast.walk(n.value) if isinstance(c, ast.Call))
            ctx.ob("R6", f"{CC}:code_cache_name", "the returned name is the digest", ok, key="digest-not-returned", where=loc(n))

    # ---- R8: how the writer opens the entry
    updf = flat(ctx, mod.func("update_cache"), 1)
    n8 = 0
    for c in calls_in(updf):
        nm = call_name(c) or ""
        if getattr(stmt_of(c), "_xv_call_marker", False):
            continue
        if nm == "open" and is_write_mode(open_mode(c) or "r"):
            n8 += 1
            md = open_mode(c) or ""
            ctx.ob("R8", f"{CC}:update_cache", f"`{short(c, 50)}` truncates the entry before writing (mode {md!r})", "w" in md or "x" in md, key="update_cache|entry-not-truncated", where=loc(c))
        elif nm == "os.open":
            n8 += 1
            fl = unparse(c.args[1]) if len(c.args) > 1 else ""
            ok = "O_TRUNC" in fl or "O_EXCL" in fl
            ctx.ob("R8", f"{CC}:update_cache", f"`{short(c, 60)}` opens the entry with O_TRUNC (or creates it exclusively)", ok, key="update_cache|entry-not-truncated", where=loc(c), detail=None if ok else "without O_TRUNC an interrupted rewrite leaves new bytes followed by the old entry's tail: full length, valid header, fresh mtime")
        elif nm in ("os.replace", "os.rename"):
            n8 += 1
            ctx.ob("R8", f"{CC}:update_cache", f"`{short(c, 50)}` publishes a completely written temp file", True, key="update_cache|replace")
    if not n8:
        raise AnchorMissing(f"{CC}:update_cache: how the entry is opened for writing")

    # ---- R7: store-then-run.  script_cache_check trusts an entry that is not older than the source; an entry written
    # after the script ran carries the end time of the run but the text of its start - an edit made meanwhile is lost.
    RUNS = ("run_compiled_code", "exec", "eval")
    n7 = 0
    for m2 in ctx.repo.modules("xonsh", containing="update_cache"):
        for q2, f2 in m2.functions():
            ups = [c for c in calls_in(f2) if call_name(c) in ("update_cache", "codecache.update_cache", "xonsh.codecache.update_cache")]
            if not ups:
                continue
            f2f = flat(ctx, f2, depth=1, skip=("update_cache", "run_compiled_code", "compile_code", "should_use_cache", "get_cache_filename") + tuple(CHECKS))
            cfg7 = CFG(f2f)
            up_n = [n for n in cfg7.nodes if n.kind == "stmt" and any(call_name(c) in ("update_cache", "codecache.update_cache", "xonsh.codecache.update_cache") for c in calls_in(n.ast))]
            run_n = [n for n in cfg7.nodes if n.kind == "stmt" and any((call_name(c) or "").split(".")[-1] in RUNS for c in calls_in(n.ast))]
            n7 += 1
            ok, path = (True, None) if not run_n else cfg7.never_after(run_n, lambda m_: m_ in up_n)
            ctx.ob("R7", f"{m2.rel}:{q2}", "update_cache() is not reachable after the compiled code was run" + ("" if run_n else " (nothing is run here)"), ok, key=f"{q2}|cache-stored-after-run", where=loc(ups[0]), path=cfg7.fmt_path(path) if path else None)
    if n7 < 2:
        raise AnalysisError(f"only {n7} functions storing cache entries found")


META = {
    "technique": "static analysis: CFG guard dominance and handler reachability around marshal.load, def-use provenance of the executed code object and of the cache key",
    "text": "Decides on every path of codecache.py and its three users (main via run_*_with_cache, "
    "BaseShell.compile, the import hook): marshal.load only after a passed version check on the same handle and "
    "inside a handler from which no return can say 'use the cache'; writer/reader header agreement with a Python "
    "stamp covering the whole sys.version_info; an injective escape code in the cache-file name; staleness "
    "comparison direction cache>=source; cache-file I/O inside an OSError handler; with the flag false the code "
    "object is used only after the compilation re-bound it; the code-cache key digests the whole text; and the "
    "context/mode inputs of the memoised compilation are constants or part of the key. Edit/run/touch "
    "histories and truncation points need no enumeration for these clauses: they quantify over paths. "
    "mtime granularity and marshal's behaviour on decodable garbage are not decided.",
    "note": "Decides the listed structural clauses, not the behaviour. Trusted: marshal.load raises on a truncated "
    "stream; os.stat mtime semantics. Known findings (key misses context/mode) are listed in known_findings.json.",
    "more": "Also decided: a cache entry is stored before the compiled code runs (its time stamp is compared with the source's). The entry writer starts from an empty file (truncating open / O_TRUNC / temp + replace). The code text is hashed through a fixed injective encoding (UTF-8/16/32, strict or surrogatepass): no codec or error handler read from run-time configuration.",
}

META["more"] += ' No code object or unmarshalled cache entry is served from state kept across calls (attribute or module-level memo).'
