"""C09 — running a command leaves the shell session as it found it.

Pairing rules over the process machinery ("every acquire is released on all exits"):
signal handlers installed by the threaded stage classes are all restored from their
cleanup entry points, also when ``Popen`` fails; spec construction and pipeline
start-up failures release everything that was already opened *and started*; sibling
closers agree on the resource slots; ``_end`` always closes; pipe ends are closed
idempotently under the lock and wrappers never own the fd; process-wide state
(cwd, ``sys.std*``, terminal) is only changed inside a paired construct.
Not decided: actual fd/thread/child counts after failures and under repetition.
"""

from __future__ import annotations

import ast

from .common import *
from ..engine.loader import class_methods

PO = "xonsh/procs/posix.py"
PX = "xonsh/procs/proxies.py"
PL = "xonsh/procs/pipelines.py"
SP = "xonsh/procs/specs.py"
PP = "xonsh/procs/pipes.py"
RD = "xonsh/procs/readers.py"


def _reachable_methods(cls_methods, roots):
    seen = set()
    todo = [r for r in roots if r in cls_methods]
    while todo:
        m = todo.pop()
        if m in seen:
            continue
        seen.add(m)
        for c in calls_in(cls_methods[m]):
            nm = call_name(c) or ""
            if nm.startswith("self.") and nm.count(".") == 1 and nm[5:] in cls_methods:
                todo.append(nm[5:])
    return seen


def _closed_slots(fn, obj_names):
    """Attribute names (normalised: leading underscore dropped) passed to a close helper, plus
    'pipe_channels' if the function loops over <obj>.pipe_channels closing each channel."""
    out = set()
    for c in calls_in(fn):
        nm = call_name(c) or ""
        if nm.split(".")[-1] in ("safe_close", "_safe_close", "safe_fdclose") and c.args:
            a = c.args[0]
            if isinstance(a, ast.Attribute) and isinstance(a.value, ast.Name) and a.value.id in obj_names:
                out.add(a.attr.lstrip("_"))
    for n in ast.walk(fn):
        if isinstance(n, ast.For) and isinstance(n.iter, ast.Attribute) and n.iter.attr == "pipe_channels" and isinstance(n.iter.value, ast.Name) and n.iter.value.id in obj_names:
            if any(last_attr(c) == "close" for s in n.body for c in calls_in(s)):
                out.add("pipe_channels")
    return out


def _consumes_tee(fn):
    return any(call_name(c) == "self.tee_stdout" for c in calls_in(fn))


def _ending_chain(pl, root="CommandPipeline.end", limit=5):
    """[end, helper, ...]: the methods through which end() reaches the statement that runs the last stage to its end
    (a consumer of self.tee_stdout()).  Each step must be unambiguous, else the shape is unknown."""
    cls = root.rsplit(".", 1)[0]
    if not pl.has(root):
        raise AnchorMissing(f"{PL}:{root}")

    def reaches(q, depth, stack=()):
        fn = pl.func(q)
        if _consumes_tee(fn):
            return True
        if depth <= 0:
            return False
        return any(reaches(h, depth - 1, stack + (q,)) for h in helpers(fn) if h not in stack and h != q)

    def helpers(fn):
        out = []
        for c in calls_in(fn):
            nm = call_name(c) or ""
            if nm.startswith("self.") and nm.count(".") == 1 and pl.has(f"{cls}.{nm[5:]}") and isinstance(pl.quals[f"{cls}.{nm[5:]}"], FuncTypes) and f"{cls}.{nm[5:]}" not in out:
                out.append(f"{cls}.{nm[5:]}")
        return out

    chain = [root]
    while not _consumes_tee(pl.func(chain[-1])):
        nxt = [h for h in helpers(pl.func(chain[-1])) if h not in chain and reaches(h, limit - len(chain))]
        if len(nxt) != 1 or len(chain) >= limit:
            raise AnalysisError(f"{PL}:{root}: the step that runs the last stage to its end (a consumer of self.tee_stdout()) is not reached through one chain of helpers from {chain[-1]} (candidates {nxt})")
        chain.append(nxt[0])
    return chain


def _ending_anchor(n):
    """the three things R4 speaks about: the close of the last stage, the ended flag, the run of the last stage"""
    if isinstance(n, ast.Call) and call_name(n) in ("self._close_proc", "self.tee_stdout"):
        return True
    return isinstance(n, ast.Assign) and any(unparse(t) == "self.ended" for t in n.targets)


def _not_on_the_way(pl, cls):
    """Names the helper-transparent view of the ending step leaves as plain calls: the close itself (its inside is
    R3's business) and every callable of the module that does not lead to one of R4's anchors.  Exceptional exits are
    modelled where the *function under analysis* makes them observable (DESIGN Appendix A); a helper that is expanded
    only because it is called, with a try statement of its own, would add exits the convention does not speak about."""
    methods = {q.split(".", 1)[1]: fn for q, fn in pl.functions() if q.startswith(cls + ".") and q.count(".") == 1}
    on_way = {m for m, fn in methods.items() if any(_ending_anchor(n) for n in walk_local(fn))}
    grew = True
    while grew:
        grew = False
        for m, fn in methods.items():
            if m not in on_way and any((call_name(c) or "") in {f"self.{h}" for h in on_way} for c in calls_in(fn)):
                on_way.add(m)
                grew = True
    on_way -= {"_close_proc", "tee_stdout"}
    called = set()
    for _, fn in pl.functions():
        for c in calls_in(fn):
            if isinstance(c.func, ast.Name):
                called.add(c.func.id)
            elif isinstance(c.func, ast.Attribute):
                called.add(c.func.attr)
    return tuple(sorted(called - on_way))


def pipe_end_closed_once(ctx, rule):
    """shared with C06: a stale second close of a recycled descriptor number hits somebody else's capture pipe"""
    pp = ctx.repo.module(PP)

    def lock_sections(fn):
        """statement containers that run with the channel's lock held: bodies of `with <lock>:` and try-bodies whose
        finally releases a lock that was acquired just before (the lock may be held through a local alias)"""
        ldefs = df.all_defs(fn)
        locks = {"self._lock"} | {n_ for n_, ds_ in ldefs.items() if ds_ and all(d_.value is not None and unparse(d_.value) == "self._lock" for d_ in ds_)}
        out = []
        for n in walk_local(fn):
            if isinstance(n, ast.With) and any(unparse(it.context_expr) in locks for it in n.items):
                out.append(n.body)
            elif isinstance(n, ast.Try) and n.finalbody and any(isinstance(c, ast.Call) and isinstance(c.func, ast.Attribute) and c.func.attr == "release" and unparse(c.func.value) in locks for b in n.finalbody for c in ast.walk(b)):
                par = getattr(n, "_xv_parent", None)
                sib = getattr(par, "body", []) if par is not None else []
                i = next((k for k, x in enumerate(sib) if x is n), None)
                if i and isinstance(sib[i - 1], ast.Expr) and isinstance(sib[i - 1].value, ast.Call) and isinstance(sib[i - 1].value.func, ast.Attribute) and sib[i - 1].value.func.attr == "acquire" and unparse(sib[i - 1].value.func.value) in locks:
                    out.append(n.body)
        return out

    def in_section(node, sec):
        return any(node is x or lexically_inside(node, x) for x in sec)

    for name, field in (("close_writer", "self._write_fd"), ("close_reader", "self._read_fd")):
        fn = flat(ctx, pp.func(f"PipeChannel.{name}"), 2)
        from ..engine.loader import set_parents as _sp

        _sp(fn)
        fcfg = CFG(fn)
        fdefs = df.all_defs(fn)
        secs = lock_sections(fn)

        def bound(d):
            """expression a definition binds (element of the tuple for `a, b = x, y`)"""
            if d.kind == "unpack" and isinstance(d.value, (ast.Tuple, ast.List)) and d.index is not None and d.index < len(d.value.elts):
                return d.value.elts[d.index]
            return d.value

        def origins(nm, depth=6, seen=()):
            """(definition, bound expression, names on the way) triples a local's value comes from, through plain copies
            (helper parameters, returned locals)"""
            out_ = []
            for d in fdefs.get(nm, []):
                b = bound(d)
                if isinstance(b, ast.Name) and b.id not in seen and depth > 0 and fdefs.get(b.id):
                    out_ += [(d2, b2, via | {nm}) for d2, b2, via in origins(b.id, depth - 1, seen + (nm,))]
                else:
                    out_.append((d, b, {nm}))
            return out_

        clear_defs = [d for d in fdefs.get(field, []) if bound(d) is not None and isinstance(bound(d), ast.Constant) and bound(d).value is None]
        clear = [n for d in clear_defs for n in fcfg.nodes_of(d.stmt)]
        osc = [n for n in fcfg.nodes if n.kind == "stmt" and any(call_name(c) == "os.close" for c in calls_in(n.ast)) and not getattr(n.ast, "_xv_call_marker", False)]
        locked = bool(clear_defs) and all(any(in_section(d.stmt, sec) for sec in secs) for d in clear_defs)
        ok = bool(clear) and bool(osc) and locked and all(fcfg.dominated(o, lambda m_: m_ in clear) for o in osc)
        ctx.ob(rule, f"{PP}:PipeChannel.{name}", f"{field} is cleared under the lock before os.close (a second call finds None: idempotent, no double close of a reused fd)", ok, key=f"{name}|clear-before-close", where=loc(fn))
        arg_ok = guard_ok = atomic = bool(osc)
        for o in osc:
            for c in calls_in(o.ast):
                if call_name(c) != "os.close":
                    continue
                a0 = c.args[0] if c.args else None
                org = origins(a0.id) if isinstance(a0, ast.Name) else []
                arg_ok = arg_ok and bool(org) and all(b is not None and unparse(b) == field for _, b, _v in org)
                chain = set().union(*[via for _, _, via in org]) | ({a0.id} if isinstance(a0, ast.Name) else set())
                facts = nfacts(fcfg, o)
                guard_ok = guard_ok and a0 is not None and any((f"{nm_} is None", False) in facts for nm_ in chain)
                # take-ownership must be one critical section: the value that will be closed is read inside the very locked
                # block that clears the field - two closers that both read before either clears both call os.close on the number
                for d, _, _v in org:
                    atomic = atomic and any(in_section(d.stmt, sec) and any(in_section(cd.stmt, sec) for cd in clear_defs) for sec in secs)
        ctx.ob(rule, f"{PP}:PipeChannel.{name}", "os.close receives the value read from the field and only if it is not None", arg_ok and guard_ok, key=f"{name}|close-arg", where=loc(fn))
        ctx.ob(rule, f"{PP}:PipeChannel.{name}", f"the value handed to os.close is read from {field} inside the same locked block that clears it (read-and-clear is atomic)", atomic, key=f"{name}|read-outside-lock", where=loc(fn))


def check(ctx):
    ctx.not_decided += [
        "actual numbers of fds / threads / children after a command (run-time state)",
        "stages that ignore EPIPE/EOF and keep running; Windows-specific branches",
        "environment restoration (covered structurally by C11)",
    ]
    ctx.rule("R1", "every signal handler (and the suspend key binding) swapped in by a threaded stage class is restored from its cleanup entry points; a failing Popen passes the cleanup", floor=10)
    ctx.rule("R2", "failures while building specs or starting a pipeline release every spec and stop/reap every stage that was already started", floor=5)
    ctx.rule("R3", "sibling closers agree on the resource slots of a spec", floor=2)
    ctx.rule("R4", "the step of CommandPipeline.end() that runs the last stage to its end always closes it and marks the pipeline ended (finally) - found by role: end() or a helper on its way to the consumer of tee_stdout(); the alias thread always closes /dev/null; ProcProxy.wait closes every handle it opened", floor=4)
    ctx.rule("R5", "pipe ends are closed idempotently: the fd field is cleared under the lock before os.close; wrappers never own the fd; fds 0-2 and sys.std* are never closed", floor=7)
    ctx.rule("R7", "what a command edits in place is its own: the overlay mapping a stage receives is created for that stage (SubprocSpec.run() writes __ALIAS_NAME into it, handlers may add keys) - never an object that outlives the command", floor=1)
    ctx.rule("R9", "a redirection of a process-wide stream that is entered on worker threads is installed once and removed once, however the threads overlap: every context manager in ProcProxyThread.run that stores into sys.<stream> counts its users under a lock (install on 0 -> 1, restore on 1 -> 0); a manager that saves what it finds and restores what it saved, per thread, leaves the dispatcher installed for good when two alias threads overlap and end in the order they started", floor=2)
    ctx.rule("R8", "whoever replaced sys.stdout / sys.stderr puts the saved stream back unconditionally: on every path of the restore step (_TeeStd._replace_std, _RedirectStream.__exit__) the saved stream is stored into sys.<name>, unless the path is governed by 'nothing was installed' (`saved is None`) - a restore that first asks who is installed now is skipped whenever two redirections overlap and end out of order, and the session keeps the wrong stream", floor=2)
    ctx.rule("R10", "the loop that waits for a foreground pipeline stays alive until every stage is over: each 'is anyone still running' predicate of self in the condition of the polling loop (the while that asks the last stage's poll()) asks every member of the list the constructor collected the started stages in - its iteration domain is that list itself on every path (no slice, no filter, no state flag that narrows it) and a falsy answer is given only after the whole domain was walked", floor=2)
    ctx.rule("R11", "every stage that swapped signal handlers in puts them back when the pipeline ends, not only the last one (the only stage that is ever wait()ed): on every way out of the ending step (CommandPipeline._end, exceptions included) a walk over every started stage, newest first (each stage saved what its predecessor installed), calls a method that in each handler-installing stage class reaches the restore of every installed signal; the call depends on nothing but the stage being present and over - otherwise SIGINT stays bound to a finished alias thread's handler after `alias | cmd`, and once that thread was interrupted it swallows every later Ctrl-C", floor=4)
    ctx.rule("R6", "process-wide state (cwd, sys.std*, terminal foreground group) is changed in xonsh/procs only inside a paired construct; every way out of CommandPipeline.end (explicit raises included) hands the terminal back", floor=3)

    # ------------------------------------------------------------------ R1
    for rel, cname, roots in ((PO, "PopenThread", ["wait", "_clean_up"]), (PX, "ProcProxyThread", ["wait", "__del__"])):
        m = ctx.repo.module(rel)
        cls = m.cls(cname)
        ms = class_methods(cls)
        init = ms["__init__"]
        installed = {}
        for n in walk_local(init):
            if isinstance(n, ast.Assign) and isinstance(n.value, ast.Call) and call_name(n.value) == "signal.signal" and len(n.value.args) == 2:
                sig = unparse(n.value.args[0])
                attr = unparse(n.targets[-1])
                installed[sig] = attr
        if len(installed) < 2:
            raise AnalysisError(f"{rel}:{cname}.__init__: fewer than 2 signal handlers installed")
        reach = _reachable_methods(ms, roots)
        restored = {}
        for name in reach:
            fn = ms[name]
            fdefs = df.all_defs(fn)
            for c in calls_in(fn):
                if call_name(c) == "signal.signal" and len(c.args) == 2:
                    old = df.resolve_copy(fdefs, c.args[1])
                    restored[unparse(c.args[0])] = (unparse(old), name)
        for sig, attr in sorted(installed.items()):
            got = restored.get(sig)
            ok = got is not None and got[0] == attr
            ctx.ob("R1", f"{rel}:{cname}", f"{sig} (saved in {attr}) is restored from the saved handler by a method reachable from {roots}", ok, key=f"{cname}|{sig}|not-restored", where=loc(init), detail=f"restored by {got}" if got else "no restore reachable")
        # restore clears the saved slot (idempotent, and the `old is not None` test then guards a second call)
        for sig, (attr, name) in sorted(restored.items()):
            fn = ms[name]
            ok = any(isinstance(n, ast.Assign) and unparse(n.targets[0]) == attr and const_value(n.value, 0) is None for n in walk_local(fn))
            ctx.ob("R1", f"{rel}:{cname}.{name}", f"restoring {sig} clears {attr} (restore is idempotent)", ok, key=f"{cname}|{sig}|not-idempotent", where=loc(fn))
    po = ctx.repo.module(PO)
    pt = class_methods(po.cls("PopenThread"))
    init = pt["__init__"]
    cfg = CFG(init)
    popen = [n for n in cfg.nodes if n.kind == "stmt" and any(call_name(c) == "subprocess.Popen" for c in calls_in(n.ast))]
    if not popen:
        raise AnchorMissing(f"{PO}:PopenThread.__init__: no subprocess.Popen call")
    clean = [n for n in cfg.nodes if n.kind == "stmt" and any(call_name(c) == "self._clean_up" for c in calls_in(n.ast))]
    exc_succ = [m_ for n in popen for m_, l in n.succ if l == "exc"]
    ok = bool(exc_succ)
    path = None
    if ok:
        ok, path = cfg.must_pass(exc_succ, lambda m_: m_ in clean, exits=("exit", "raise"))
        ok = ok or all(s in clean for s in exc_succ)
        # handlers themselves are 'handler' nodes: start from them
        seen = cfg.reach(exc_succ, stop=lambda m_: m_ in clean, include_starts=True)
        ok = cfg.raise_exit not in seen and cfg.exit not in seen
    ctx.ob("R1", f"{PO}:PopenThread.__init__", "when subprocess.Popen raises, every path out of the constructor passes _clean_up() (handlers restored although no thread ever ran)", ok, key="PopenThread|popen-failure-no-cleanup", where=loc(popen[0].ast))
    sigs_installed_before = all(n.ast.lineno < popen[0].ast.lineno for n in cfg.nodes if n.kind == "stmt" and isinstance(n.ast, ast.Assign) and isinstance(n.ast.value, ast.Call) and call_name(n.ast.value) == "signal.signal")
    ctx.ob("R1", f"{PO}:PopenThread.__init__", "handlers are installed before the process is started (so the failure cleanup sees them)", sigs_installed_before, key="PopenThread|install-after-popen")
    dis = any(call_name(c) == "self._disable_suspend_keybind" for c in calls_in(init))
    reach = _reachable_methods(pt, ["wait", "_clean_up"])
    res = "_restore_suspend_keybind" in reach
    ctx.ob("R1", f"{PO}:PopenThread", "the suspend key binding disabled in the constructor is restored by a method reachable from wait()/_clean_up()", (not dis) or res, key="PopenThread|suspend-keybind-not-restored")
    w = pt["wait"]
    wcfg = CFG(w)
    cl = [n for n in wcfg.nodes if n.kind == "stmt" and any(call_name(c) == "self._clean_up" for c in calls_in(n.ast))]
    ok, path = wcfg.must_pass(wcfg.entry, lambda m_: m_ in cl, exits=("exit",))
    ctx.ob("R1", f"{PO}:PopenThread.wait", "wait() runs the cleanup on every normal return", ok, key="PopenThread.wait|no-cleanup")
    cu = pt["_clean_up"]
    called = {call_name(c) for c in calls_in(cu)}
    need = {f"self.{n}" for n in pt if n.startswith("_restore_sig")}
    ctx.ob("R1", f"{PO}:PopenThread._clean_up", f"_clean_up calls every _restore_sig* method of the class ({sorted(need)})", need <= called, key="PopenThread._clean_up|missing-restore", detail=str(sorted(need - called)))

    # ------------------------------------------------------------------ R2
    sp = ctx.repo.module(SP)
    c2s = sp.func("cmds_to_specs")
    tries = [n for n in c2s.body if isinstance(n, ast.Try)]
    ok = False
    why = "no try around the body"
    if tries:
        t = tries[0]
        before = [s for s in c2s.body if s.lineno < t.lineno and not (isinstance(s, ast.Expr) and isinstance(s.value, ast.Constant))]
        opens_before = any(any((call_name(c) or "").startswith(("SubprocSpec.build", "PipeChannel")) for c in calls_in(s)) for s in before)
        for h in t.handlers:
            if h.type is not None and unparse(h.type) == "BaseException":
                closes = any(isinstance(s, ast.For) and isinstance(s.iter, ast.Name) and s.iter.id in returned_names(c2s) and any(last_attr(c) == "close" for c in calls_in(s, local=False)) for s in h.body)
                reraises = any(isinstance(s, ast.Raise) and s.exc is None for s in h.body)
                ok = closes and reraises and not opens_before
                why = f"closes={closes} reraises={reraises} resources_opened_before_try={opens_before}"
    ctx.ob("R2", f"{SP}:cmds_to_specs", "any failure (BaseException) while building specs closes every spec built so far and re-raises", ok, key="cmds_to_specs|no-cleanup", detail=why)
    pl = ctx.repo.module(PL)
    ci = flat(ctx, pl.func("CommandPipeline.__init__"), depth=2, skip=("_return_terminal", "print_exception", "close", "close_reader"))
    run_try = None
    for n in ast.walk(ci):
        if isinstance(n, ast.Try) and any(any((call_name(c) or "").endswith(".run") for c in calls_in(s)) for s in n.body):
            run_try = n
    if run_try is None:
        raise AnchorMissing(f"{PL}:CommandPipeline.__init__: try around spec.run() not found")
    h = run_try.handlers[0]
    hsrc = ast.Module(body=h.body, type_ignores=[])
    # the list of stages: what the loop around the try iterates (possibly through enumerate), or self.specs
    stage_lists = {"self.specs"}
    for a_ in ancestors(run_try):
        if isinstance(a_, ast.For):
            it_ = a_.iter
            if isinstance(it_, ast.Call) and call_name(it_) == "enumerate" and it_.args:
                it_ = it_.args[0]
            stage_lists.add(unparse(it_))
    stage_lists |= {c_ for nm_ in list(stage_lists) if nm_.isidentifier() for c_ in copies_of(df.all_defs(ci), nm_)}

    def is_stage_list(e):
        t_ = unparse(e.value if isinstance(e, ast.Subscript) and isinstance(e.slice, ast.Slice) and e.slice.upper is None else e)
        return t_ in stage_lists

    closes_rest = any(isinstance(s, ast.For) and is_stage_list(s.iter) and any(call_name(c) == f"{unparse(s.target)}.close" for c in calls_in(s, local=False)) for s in ast.walk(hsrc))
    ctx.ob("R2", f"{PL}:CommandPipeline.__init__", "when a stage fails to start, the failing and the remaining specs are closed", closes_rest, key="pipeline-init|rest-not-closed", where=loc(h))
    rt = any(call_name(c) == "self._return_terminal" for c in calls_in(hsrc, local=False))
    ctx.ob("R2", f"{PL}:CommandPipeline.__init__", "when a stage fails to start, the terminal is returned to the shell", rt, key="pipeline-init|terminal-not-returned", where=loc(h))
    # stages already started: the handler (or a helper it calls) must deal with self.procs
    touches_started = False
    for n in ast.walk(hsrc):
        if isinstance(n, ast.For) and ("self.procs" in unparse(n.iter)):
            body_calls = {last_attr(c) for s in n.body for c in calls_in(s, local=False)}
            if body_calls & {"wait", "join", "terminate", "kill", "close_reader", "close"}:
                touches_started = True
    for c in calls_in(hsrc, local=False):
        nm = call_name(c) or ""
        if nm.startswith("self.") and pl.has("CommandPipeline." + nm[5:]):
            helper = pl.func("CommandPipeline." + nm[5:])
            if "self.procs" in unparse(helper) and any(last_attr(x) in ("wait", "join", "terminate", "kill") for x in calls_in(helper)) and nm[5:] not in ("_return_terminal",):
                touches_started = True
    ctx.ob("R2", f"{PL}:CommandPipeline.__init__", "when a later stage fails to start, the stages already started (self.procs) are unblocked/stopped and reaped, and their pipes closed", touches_started, key="pipeline-init|started-stages-leaked", where=loc(h), detail="the handler closes specs[i:] only; procs started for specs[:i] keep running with their pipe ends open")
    ok = any(isinstance(n, ast.Assign) and unparse(n.targets[0]) == "self.proc" and const_value(n.value, 0) is None for n in ast.walk(hsrc))
    ctx.ob("R2", f"{PL}:CommandPipeline.__init__", "a pipeline that failed to start has proc = None (later code tests this)", ok, key="pipeline-init|proc-not-none")

    # ------------------------------------------------------------------ R3
    sc = sp.func("SubprocSpec.close")
    cp = pl.func("CommandPipeline._close_proc")
    a = _closed_slots(sc, {"self"})
    pdefs = df.all_defs(cp)
    spec_names = {n_ for n_, ds in pdefs.items() if any(d.kind == "assign" and d.value is not None and unparse(d.value) == "self.spec" for d in ds)}
    b = _closed_slots(cp, spec_names)
    ctx.ob("R3", f"{SP}:SubprocSpec.close / {PL}:CommandPipeline._close_proc", f"both closers release the same spec slots ({sorted(a)})", a == b and len(a) >= 5, key="closers-disagree", detail=f"SubprocSpec.close={sorted(a)} _close_proc={sorted(b)}")
    cpp = pl.func("CommandPipeline._close_prev_procs")
    loopvars = set()
    for n in ast.walk(cpp):
        if isinstance(n, ast.For) and isinstance(n.target, ast.Tuple) and "self.specs" in unparse(n.iter):
            loopvars.add(unparse(n.target.elts[0]))
    c = _closed_slots(cpp, loopvars)
    ctx.ob("R3", f"{PL}:CommandPipeline._close_prev_procs", "earlier stages release stdin, stdout, stderr and their pipe channels", {"stdin", "stdout", "stderr", "pipe_channels"} <= c, key="prev-procs-slots", detail=str(sorted(c)))

    # ------------------------------------------------------------------ R4
    # the ending step is found by its role, not by its name: end() and the helpers through which end() reaches the
    # statement that consumes self.tee_stdout() (today end -> _end).  One of them must be a function every exit of
    # which (exceptions included) has closed the last stage and marked the pipeline ended - whatever that function is
    # called, and whether the step was inlined into end() or split into several helpers.  The only way out that need
    # not close is the one taken because the pipeline had already been ended when the function was entered.
    end_chain = _ending_chain(pl)
    EXPAND_SKIP = _not_on_the_way(pl, "CommandPipeline")
    verdicts = {"_close_proc()": [], "ended = True": []}
    from_root = {}
    for q_ in end_chain:
        en = flat(ctx, pl.func(q_), depth=3, skip=EXPAND_SKIP)
        ecfg = CFG(en, catchall=("BaseException",))
        clp = [n for n in ecfg.nodes if n.kind == "stmt" and any(call_name(c) == "self._close_proc" for c in calls_in(n.ast))]
        ended = [n for n in ecfg.nodes if n.kind == "stmt" and isinstance(n.ast, ast.Assign) and unparse(n.ast.targets[0]) == "self.ended" and const_value(n.ast.value) is True]
        # `if self.ended: return` - the flag as found on entry (no store of the flag reaches the test)
        after_store = set(ecfg.reach(ended)) if ended else set()
        already = {n for n in ecfg.nodes if n.kind == "stmt" and isinstance(n.ast, ast.Return) and n.ast.value is None and n not in after_store and ("self.ended", True) in nfacts(ecfg, n)}
        for what, nodes in (("_close_proc()", clp), ("ended = True", ended)):
            ok, path = bool(nodes), None
            if ok:
                # (the already-ended way out may be a `return` under the flag or the arm of `if not self.ended:` not taken)
                ok, path = ecfg.must_pass(ecfg.entry, lambda m_, nodes=nodes: m_ in nodes or m_ in already, skip_edge=ecfg.assume_edges([("self.ended", False)]))
            verdicts[what].append((ok, q_, en, ecfg.fmt_path(path) if not ok and path else None))
            if q_ == end_chain[0]:
                # ... and seen from end() itself no *normal* way out goes round it (the function that always closes
                # must not be one that end() calls only sometimes)
                nok, npath = bool(nodes), None
                if nok:
                    nok, npath = ecfg.must_pass(ecfg.entry, lambda m_, nodes=nodes: m_ in nodes or m_ in already, exits=("exit",), skip_edge=ecfg.assume_edges([("self.ended", False)]))
                from_root[what] = (nok, en, ecfg.fmt_path(npath) if not nok and npath else None)
    for what, vs in verdicts.items():
        good = [v for v in vs if v[0]]
        ok, q_, en, path = good[-1] if good else vs[-1]
        nok, ren, npath = from_root[what]
        if ok and not nok:
            ok, q_, en, path = False, end_chain[0], ren, npath
        ctx.ob("R4", f"{PL}:{q_}", f"every exit of the pipeline-ending step (exceptions included) passes {what}", ok, key=f"_end|{what}", where=loc(en), path=path)
    px = ctx.repo.module(PX)
    run = px.func("ProcProxyThread.run")
    rcfg = CFG(run)  # a worker thread cannot receive KeyboardInterrupt; SystemExit is handled explicitly
    cd = [n for n in rcfg.nodes if n.kind == "stmt" and any(call_name(c) == "self._close_devnull" for c in calls_in(n.ast))]
    ok, path = rcfg.must_pass(rcfg.entry, lambda m_: m_ in cd) if cd else (False, None)
    ctx.ob("R4", f"{PX}:ProcProxyThread.run", "every exit of the alias thread passes _close_devnull()", ok, key="ProcProxyThread.run|devnull", where=loc(run), path=rcfg.fmt_path(path) if path else None)
    pw = px.func("ProcProxy.wait")
    pcfg = CFG(pw)
    # the list of handles opened here: the local that a closing loop iterates
    closes = [n for n in pcfg.nodes if n.kind == "for" and isinstance(n.ast.iter, ast.Name) and any(last_attr(c) in ("safe_fdclose", "close") for s in n.ast.body for c in calls_in(s))]
    owned = {n.ast.iter.id for n in closes}
    adds = [n for n in pcfg.nodes if n.kind == "stmt" and any(isinstance(c.func, ast.Attribute) and c.func.attr == "append" and isinstance(c.func.value, ast.Name) and c.func.value.id in owned for c in calls_in(n.ast))]
    ok = bool(adds) and bool(closes)
    if ok:
        ok, path = pcfg.must_pass(adds, lambda m_: m_ in closes, exits=("exit",))
    ctx.ob("R4", f"{PX}:ProcProxy.wait", "every handle opened for the alias (owned_handles) is closed before a normal return", ok, key="ProcProxy.wait|owned-handles", where=loc(pw))

    # ------------------------------------------------------------------ R5
    pipe_end_closed_once(ctx, "R5")
    pp = ctx.repo.module(PP)
    for name in ("open_writer", "open_reader"):
        fn = flat(ctx, pp.func(f"PipeChannel.{name}"), 2)
        opens = [c for c in calls_in(fn) if call_name(c) == "open" and not getattr(stmt_of(c), "_xv_call_marker", False)]
        ok = bool(opens) and all(const_value(kwarg(c, "closefd"), True) is False for c in opens)
        ctx.ob("R5", f"{PP}:PipeChannel.{name}", "wrappers are opened with closefd=False (single owner: only the channel closes the fd)", ok, key=f"{name}|closefd", where=loc(fn))
    # the stage classes wrap descriptors they were given, they never own one: a wrapper that owns its descriptor
    # (no closefd=False) or a private duplicate (os.dup) lives until somebody closes it - or until garbage collection,
    # which a traceback kept in sys.last_exc postpones indefinitely: the writer upstream never sees EPIPE and stays
    pxm = ctx.repo.module("xonsh/procs/proxies.py")
    n_wr = 0
    for q, fn in pxm.functions():
        if not q.startswith(("ProcProxyThread.", "ProcProxy.")):
            continue
        for c in calls_in(fn):
            nm = call_name(c) or ""
            if nm in ("open", "io.open", "os.fdopen") and c.args and not isinstance(c.args[0], ast.Constant):
                a0 = c.args[0]
                is_fd = (isinstance(a0, ast.Attribute) and a0.attr.endswith(("read", "write"))) or isinstance(a0, ast.Call) or (isinstance(a0, ast.Name) and a0.id in ("stdin", "stdout", "stderr", "fd")) or unparse(a0) in ("0", "1", "2")
                if not is_fd:
                    continue
                n_wr += 1
                ok = const_value(kwarg(c, "closefd"), True) is False and not any(isinstance(x, ast.Call) and call_name(x) in ("os.dup", "os.dup2") for x in ast.walk(a0))
                ctx.ob("R5", f"xonsh/procs/proxies.py:{q}", f"`{short(c, 50)}` wraps the stage's descriptor without owning it (closefd=False, no private duplicate)", ok, key=f"{q}|wrapper-owns-descriptor|{unparse(a0)[:30]}", where=loc(c))
            elif nm in ("os.dup", "os.dup2") and not any(isinstance(a, ast.Call) and call_name(a) in ("open", "io.open", "os.fdopen") for a in ancestors(c)):
                n_wr += 1
                ctx.ob("R5", f"xonsh/procs/proxies.py:{q}", f"`{short(c, 40)}`: the stage classes create no descriptors of their own", False, key=f"{q}|private-duplicate", where=loc(c))
    if n_wr < 4:
        raise AnalysisError(f"xonsh/procs/proxies.py: only {n_wr} descriptor wrappers found in the stage classes")
    rd = ctx.repo.module(RD)
    sf = rd.func("safe_fdclose")
    scfg = CFG(sf)
    for n in scfg.nodes:
        if n.kind == "stmt" and any(call_name(c) == "os.close" for c in calls_in(n.ast)):
            facts = facts_text(facts_at(scfg, n))
            ok = any(f.replace(" ", "") in ("handle>=3", "handle>2") for f in facts)
            ctx.ob("R5", f"{RD}:safe_fdclose", "a raw descriptor is closed only if it is >= 3", ok, key="safe_fdclose|std-fds", where=loc(n.ast), detail="; ".join(facts))
        if n.kind == "stmt" and any(call_name(c) == "handle.close" for c in calls_in(n.ast)):
            facts = facts_text(facts_at(scfg, n))
            ok = any("handle is sys.stdin" in f and f.startswith("not ") for f in facts)
            ctx.ob("R5", f"{RD}:safe_fdclose", "sys.stdin/stdout/stderr are never closed", ok, key="safe_fdclose|sys-std", where=loc(n.ast), detail="; ".join(facts))

    # ------------------------------------------------------------------ R6
    n6 = 0
    for m in ctx.repo.modules("xonsh/procs"):
        for n in ast.walk(m.tree):
            if isinstance(n, ast.Call) and call_name(n) in ("os.chdir", "os.fchdir"):
                n6 += 1
                ctx.ob("R6", f"{m.rel}:{qual_of(enclosing_func(n))}", "the process machinery never changes the working directory", False, key=f"{m.rel}|chdir", where=loc(n))
            if isinstance(n, ast.Assign):
                for t in n.targets:
                    if unparse(t) in ("sys.stdout", "sys.stderr", "sys.stdin"):
                        n6 += 1
                        fn = enclosing_func(n)
                        q = qual_of(fn) if fn is not None else "<module>"
                        # allowed only when the same function restores it in a finally / is a context manager
                        paired = fn is not None and any(isinstance(x, ast.Try) and x.finalbody and any(isinstance(s, ast.Assign) and unparse(s.targets[0]) == unparse(t) for s in ast.walk(ast.Module(body=x.finalbody, type_ignores=[]))) for x in ast.walk(fn))
                        ctx.ob("R6", f"{m.rel}:{q}", f"`{short(n)}` is undone in a finally of the same function", paired, key=f"{m.rel}:{q}|std-rebind", where=loc(n))
            if isinstance(n, ast.Call) and call_name(n) in ("os.tcsetpgrp",):
                n6 += 1
                fn = enclosing_func(n)
                q = qual_of(fn) if fn is not None else "<module>"
                ctx.ob("R6", f"{m.rel}:{q}", "the terminal foreground group is changed only by give_terminal_to (paired with _return_terminal)", q.endswith("give_terminal_to") or q.endswith("_give_terminal_to"), key=f"{m.rel}:{q}|tcsetpgrp", where=loc(n))
    # pipelines: every end() returns the terminal
    endf = pl.func("CommandPipeline.end")
    if n6 + 1 < 2:
        raise AnalysisError("R6 saw no process-wide state sites at all")
    # ... and so does every explicit raise on the way out of end(): helpers are expanded (depth 3) so
    # that it does not matter in which of end/_end/_raise_subproc_error the raise or the hand-back lives
    from ..engine import inline

    flat_end = inline.flatten(ctx.repo, endf, depth=3, skip=("_return_terminal", "tee_stdout", "print_exception"))
    fcf = CFG(flat_end)
    ctx.extra["end_expanded_helpers"] = sorted({h for _, h in flat_end._xv_expanded})
    rt = [n for n in fcf.nodes if n.kind == "stmt" and any(call_name(c) == "self._return_terminal" for c in calls_in(n.ast))]
    # "ended normally": from the statement that runs the last stage to its end (the consumer of self.tee_stdout(), in
    # whichever helper of end() it lives) every normal way out of end() passes the hand-back
    e1 = [n for n in fcf.nodes if n.kind in ("stmt", "for") and not getattr(n.ast, "_xv_call_marker", False) and any(isinstance(c, ast.Call) and call_name(c) == "self.tee_stdout" for c in ast.walk(n.ast.iter if n.kind == "for" else n.ast))]
    if not e1:
        raise AnalysisError(f"{PL}:CommandPipeline.end: the consumer of self.tee_stdout() was not reached by helper expansion ({sorted({h for _, h in flat_end._xv_expanded})})")
    ok = bool(rt)
    if ok:
        ok, _ = fcf.must_pass(e1, lambda m_: m_ in rt, exits=("exit",))
    ctx.ob("R6", f"{PL}:CommandPipeline.end", "after a pipeline ended normally the controlling terminal is returned to the shell", ok, key="end|terminal")
    raises = [n for n in fcf.nodes if n.kind == "stmt" and isinstance(n.ast, ast.Raise)]
    if not any("_raise_subproc_error" in h for _, h in flat_end._xv_expanded):
        raise AnalysisError(f"{PL}:CommandPipeline.end: the raising step was not reached by helper expansion ({sorted({h for _, h in flat_end._xv_expanded})})")
    for r in raises:
        ok, path = fcf.must_pass([r], lambda m_: m_ in rt, exits=("raise",)) if rt else (False, None)
        ctx.ob(
            "R6",
            f"{PL}:CommandPipeline.end",
            f"`{short(r.ast, 60)}` (in {getattr(r.ast, '_xv_from', ('', 'end'))[1]}): the controlling terminal is handed back before the exception leaves end() — nothing re-acquires it afterwards, the shell would stay a background job of its own terminal",
            ok,
            key=f"end|raise-keeps-terminal|{getattr(r.ast, '_xv_from', ('', 'end'))[1]}",
            where=loc(r.ast),
            path=fcf.fmt_path(path) if path else None,
        )
    if len(raises) < 1:
        raise AnalysisError(f"{PL}:CommandPipeline.end: no explicit raise found after helper expansion (2 confirmed by hand)")
    # ---- R7: per-stage overlays are per-command objects (shared with C10.R7)
    from .c10 import _overlay_ownership as _oo

    _oo(ctx, ctx.repo.module("xonsh/procs/specs.py"), rule="R7")
    _stream_restore_unconditional(ctx)
    _threaded_redirect_counted(ctx)
    _polling_predicate_total(ctx)
    _every_stage_restores(ctx)



def _stream_restore_unconditional(ctx):
    from ..engine import dtable as _dt

    for rel, q in (("xonsh/shells/base_shell.py", "_TeeStd._replace_std"), ("xonsh/tools.py", "_RedirectStream.__exit__")):
        mod = ctx.repo.module(rel)
        fn = flat(ctx, mod.func(q), 2)
        st = f"{rel}:{q}"
        n_paths = 0
        for p_ in _dt.paths(fn, loops="skip"):
            if p_.outcome == "raise" or not _dt.feasible(p_):
                continue
            n_paths += 1
            restored = any(isinstance(c, ast.Call) and ((call_name(c) == "setattr" and c.args and unparse(c.args[0]) == "sys") ) for e in p_.effects for c in ast.walk(e)) or any(isinstance(e, ast.Assign) and any(unparse(t).startswith("sys.std") for t in e.targets) for e in p_.effects)
            lits = [(unparse(e), pol) for e, pol in _dt.literals(p_)]
            nothing = any(t.endswith(" is None") and pol for t, pol in lits) or any(t.endswith(" is not None") and not pol for t, pol in lits)
            ok = restored or nothing
            if not ok or restored:
                ctx.ob("R8", st, "a path through the restore step stores the saved stream into sys.<name>" + (" (or nothing was installed)" if not restored else ""), ok, key=f"{q}|restore-skipped|{';'.join(sorted(('' if pol else 'not ') + t for t, pol in lits))[:120]}", where=loc(fn), detail=None if ok else "path taken when: " + "; ".join(("" if pol else "not ") + t for t, pol in lits))
        if n_paths == 0:
            raise AnalysisError(f"{st}: no path enumerated")


def _handler_cleanup_entries(ctx):
    """{class: {method: True}} - methods of a handler-installing stage class from which the restore of every
    installed signal is reachable, and which do not wait for the stage (no join()/wait() on the way)"""
    out = {}
    for rel, cname in ((PO, "PopenThread"), (PX, "ProcProxyThread")):
        m = ctx.repo.module(rel)
        ms = class_methods(m.cls(cname))
        init = ms["__init__"]
        installed = {unparse(n.value.args[0]) for n in walk_local(init) if isinstance(n, ast.Assign) and isinstance(n.value, ast.Call) and call_name(n.value) == "signal.signal" and len(n.value.args) == 2}
        if len(installed) < 2:
            raise AnalysisError(f"{rel}:{cname}.__init__: fewer than 2 signal handlers installed")
        entries = set()
        for name in ms:
            reach = _reachable_methods(ms, [name])
            restored = {unparse(c.args[0]) for r_ in reach for c in calls_in(ms[r_]) if call_name(c) == "signal.signal" and len(c.args) == 2}
            blocks = any(isinstance(c.func, ast.Attribute) and c.func.attr in ("join", "wait") for r_ in reach for c in calls_in(ms[r_]))
            if installed <= restored and not blocks and name != "__init__":
                entries.add(name)
        out[cname] = entries
    return out


def _every_stage_restores(ctx):
    """R11: the ending step walks every stage and lets it restore the handlers it swapped in."""
    from ..engine import dataflow as _df

    pl = ctx.repo.module(PL)
    entries = _handler_cleanup_entries(ctx)
    common = set().union(*entries.values())
    # the ending step by its role (as R4): the function on end()'s way to the consumer of tee_stdout() in whose
    # helper-transparent view the walk sits; helpers that are not on that way stay plain calls (their own try / with
    # statements would add exits the convention does not speak about) - except the ones that hold a cleanup walk
    chain = _ending_chain(pl)
    cls_ms = class_methods(pl.cls("CommandPipeline"))
    holders = {nm_ for nm_, f_ in cls_ms.items() if any(isinstance(l_, ast.For) and any((isinstance(c_.func, ast.Attribute) and c_.func.attr in common) or (call_name(c_) == "getattr" and len(c_.args) >= 2 and const_value(c_.args[1], None) in common) for c_ in calls_in(l_)) for l_ in walk_local(f_))}
    skip = tuple(x_ for x_ in _not_on_the_way(pl, "CommandPipeline") if x_ not in holders)
    best = None
    for q_ in chain:
        f_ = flat(ctx, pl.func(q_), 3, skip=skip)
        has = any(isinstance(l_, ast.For) and any((isinstance(c_.func, ast.Attribute) and c_.func.attr in common) or (call_name(c_) == "getattr" and len(c_.args) >= 2 and const_value(c_.args[1], None) in common) for c_ in calls_in(l_)) for l_ in walk_local(f_))
        if has or best is None:
            best = (q_, f_)
            if has:
                # the innermost function of the chain that shows the walk is the one judged
                pass
    q_end, fn = best
    st = f"{PL}:{q_end}"
    defs = _df.all_defs(fn)
    cfg = CFG(fn, catchall=("BaseException",))

    def strip_order(e):
        """-> (domain expr, newest_first)"""
        if isinstance(e, ast.Call) and call_name(e) == "reversed" and len(e.args) == 1:
            return e.args[0], True
        if isinstance(e, ast.Subscript) and isinstance(e.slice, ast.Slice) and e.slice.lower is None and e.slice.upper is None and e.slice.step is not None and unparse(e.slice.step) == "-1":
            return e.value, True
        if isinstance(e, ast.Name):
            d = _df.single_def(defs, e.id)
            if d is not None and d.kind == "assign" and d.value is not None and d.index is None:
                return strip_order(d.value)
        return e, False

    walks = []
    for lp in [n for n in walk_local(fn) if isinstance(n, ast.For)]:
        tn = {x.id for x in ast.walk(lp.target) if isinstance(x, ast.Name)}
        # names bound to a method looked up on the element: clean_up = getattr(p, "_clean_up", None)
        looked = {}
        for n in walk_local(lp):
            if isinstance(n, ast.Assign) and isinstance(n.value, ast.Call) and call_name(n.value) == "getattr" and len(n.value.args) >= 2 and isinstance(n.value.args[0], ast.Name) and n.value.args[0].id in tn and isinstance(const_value(n.value.args[1], None), str):
                for t in n.targets:
                    if isinstance(t, ast.Name):
                        looked[t.id] = n.value.args[1].value
        hits = []
        for c in calls_in(lp):
            nm = None
            if isinstance(c.func, ast.Attribute) and isinstance(c.func.value, ast.Name) and c.func.value.id in tn:
                nm = c.func.attr
            elif isinstance(c.func, ast.Name) and c.func.id in looked:
                nm = looked[c.func.id]
            if nm in common:
                hits.append((c, nm))
        if hits:
            walks.append((lp, hits, tn, looked))
    sp = ctx.repo.module(SP)

    def last_only(f, name, depth=3):
        """``name`` in function f always stands for the last spec of the pipeline (specs[-1] at every origin)"""
        params = [a.arg for a in f.args.posonlyargs + f.args.args]
        if name not in params or depth == 0:
            d = df.single_def(df.all_defs(f), name)
            return d is not None and d.value is not None and isinstance(d.value, ast.Subscript) and unparse(d.value.slice) == "-1"
        i = params.index(name)
        sites = [(g, c) for _, g in sp.functions() for c in calls_in(g) if (call_name(c) or "").split(".")[-1] == f.name]
        if not sites:
            return False
        for g, c in sites:
            a = c.args[i] if i < len(c.args) else kwarg(c, name)
            if isinstance(a, ast.Subscript) and unparse(a.slice) == "-1":
                continue
            if isinstance(a, ast.Name) and last_only(g, a.id, depth - 1):
                continue
            return False
        return True

    for cname, ents in sorted(entries.items()):
        # a class only ever given to the last stage is wait()ed by the pipeline: the walk need not reach it
        assigns = [(f, n) for _, f in sp.functions() for n in walk_local(f) if isinstance(n, ast.Assign) and any(isinstance(t, ast.Attribute) and t.attr == "cls" for t in n.targets) and any(isinstance(x, ast.Name) and x.id == cname for x in ast.walk(n.value))]
        if not assigns:
            raise AnalysisError(f"{SP}: no assignment of {cname} to a spec's cls found")
        if all(isinstance(t.value, ast.Name) and last_only(f, t.value.id) for f, n in assigns for t in n.targets if isinstance(t, ast.Attribute)):
            ctx.note(f"R11: {cname} is only ever the class of the last stage (specs[-1] at every origin of the assignment); the pipeline wait()s that stage itself")
            continue
        ok = any(nm in ents for _, hits, _, _ in walks for _, nm in hits)
        ctx.ob("R11", st, f"the ending step calls a handler cleanup of {cname} in a walk over the stages", ok, key=f"_end|no-stage-cleanup-walk|{cname}", where=loc(fn), detail=None if ok else f"no loop in the ending step (helpers expanded) calls one of {sorted(ents)} (non-blocking methods of {cname} that reach the restore of every installed signal) on its element: a stage that is only joined keeps its handlers installed until it is garbage collected")
    for lp, hits, tn, looked in walks:
        dom, newest = strip_order(lp.iter)
        whole = unparse(dom) == "self.procs"
        ctx.ob("R11", st, "the cleanup walk covers every started stage (self.procs itself)", whole, key=f"_end|cleanup-walk-partial|{unparse(dom)[:40]}", where=loc(lp), detail=None if whole else f"walks `{short(lp.iter, 50)}`")
        ctx.ob("R11", st, "the cleanup walk goes newest first (a stage saved the handler its predecessor had installed)", newest, key="_end|cleanup-walk-oldest-first", where=loc(lp), detail=None if newest else "oldest first: when the last stage was not waited for (interrupt), restoring it last re-installs its predecessor's handler")
        nodes = cfg.nodes_of(lp)
        # (the way out taken because the pipeline had been ended already need not walk again)
        ended_st = [n_ for n_ in cfg.nodes if n_.kind == "stmt" and isinstance(n_.ast, ast.Assign) and unparse(n_.ast.targets[0]) == "self.ended" and const_value(n_.ast.value) is True]
        after_store = set(cfg.reach(ended_st)) if ended_st else set()
        already = {n_ for n_ in cfg.nodes if n_.kind == "stmt" and isinstance(n_.ast, ast.Return) and n_.ast.value is None and n_ not in after_store and ("self.ended", True) in nfacts(cfg, n_)}
        on_all = bool(nodes) and cfg.must_pass(cfg.entry, lambda m_: m_.ast is lp or m_ in already, exits=("exit", "raise"), skip_edge=cfg.assume_edges([("self.ended", False)]))[0]
        ctx.ob("R11", st, "every way out of the ending step (exceptions included) passes the cleanup walk", on_all, key="_end|cleanup-walk-skippable", where=loc(lp))
        for c, nm in hits:
            bad = None
            for a in ancestors(c):
                if a is lp:
                    break
                if isinstance(a, (ast.If, ast.IfExp, ast.While)):
                    for e, _pol in implied_facts(a.test, True) + implied_facts(a.test, False):
                        presence = (isinstance(e, ast.Compare) and len(e.ops) == 1 and isinstance(e.ops[0], (ast.Is, ast.IsNot)) and const_value(e.comparators[0], 0) is None) or (isinstance(e, ast.Call) and call_name(e) in ("hasattr", "callable", "getattr")) or (isinstance(e, ast.Name) and e.id in looked)
                        over = any(isinstance(x, ast.Call) and isinstance(x.func, ast.Attribute) and x.func.attr == "poll" for x in ast.walk(e))
                        if not (presence or over):
                            bad = e
            ctx.ob("R11", st, f"`{short(c, 40)}` depends only on the stage being present and over", bad is None, key=f"_end|cleanup-restricted|{unparse(bad)[:40] if bad is not None else ''}", where=loc(c), detail=None if bad is None else f"guarded by `{short(bad, 50)}`: stages failing it keep their handlers")


def _polling_predicate_total(ctx):
    """R10: the liveness predicate of the polling loop quantifies over every started stage."""
    from ..engine import dataflow as _df
    from ..engine import cfg as _cfg

    pl = ctx.repo.module(PL)
    cls = pl.cls("CommandPipeline")
    ms = class_methods(cls)
    init = ms["__init__"]
    # the list of started stages, by role: the attribute of self the constructor appends what spec.run() returned to
    started = set()
    idefs = _df.all_defs(init)
    for c in calls_in(init):
        if isinstance(c.func, ast.Attribute) and c.func.attr == "append" and unparse(c.func.value).startswith("self.") and c.args:
            a = c.args[0]
            srcs = [a] + ([d.value for d in idefs.get(a.id, []) if d.value is not None] if isinstance(a, ast.Name) else [])
            if any(isinstance(x, ast.Call) and (call_name(x) or "").endswith(".run") for s_ in srcs for x in ast.walk(s_)):
                started.add(unparse(c.func.value))
    if len(started) != 1:
        raise AnalysisError(f"{PL}:CommandPipeline.__init__: the list of started stages not identified ({sorted(started)})")
    dom = started.pop()

    def expand(defs, e, depth=5):
        """every expression a name may stand for (all definitions)"""
        if isinstance(e, ast.Name) and depth and e.id in defs:
            out = []
            for d in defs[e.id]:
                if d.kind in ("assign", "walrus") and d.value is not None and d.index is None:
                    out += expand(defs, d.value, depth - 1)
                else:
                    out.append(e)
            return out
        if isinstance(e, ast.IfExp):
            return expand(defs, e.body, depth) + expand(defs, e.orelse, depth)
        if isinstance(e, ast.Call) and call_name(e) in ("list", "tuple", "iter", "reversed", "sorted") and len(e.args) == 1 and not e.keywords:
            return expand(defs, e.args[0], depth)
        return [e]

    n_loops = n_preds = 0
    for q, fn in sorted(ms.items()):
        for w in [x for x in walk_local(fn) if isinstance(x, ast.While)]:
            polls = [c for c in ast.walk(w.test) if isinstance(c, ast.Call) and isinstance(c.func, ast.Attribute) and c.func.attr == "poll"]
            if not polls:
                continue
            preds = [c for c in ast.walk(w.test) if isinstance(c, ast.Call) and isinstance(c.func, ast.Attribute) and unparse(c.func.value) == "self" and c.func.attr in ms]
            if not preds:
                continue
            n_loops += 1
            for pc in preds:
                pf = flat(ctx, ms[pc.func.attr], 2)
                st = f"{PL}:CommandPipeline.{pc.func.attr}"
                defs = _df.all_defs(pf)
                # iteration constructs that ask poll() of their element
                iters = []
                for n in walk_local(pf):
                    if isinstance(n, ast.For):
                        tn = {x.id for x in ast.walk(n.target) if isinstance(x, ast.Name)}
                        if any(isinstance(c, ast.Call) and isinstance(c.func, ast.Attribute) and c.func.attr == "poll" and {x.id for x in ast.walk(c.func.value) if isinstance(x, ast.Name)} & tn for b in n.body for c in ast.walk(b)):
                            iters.append((n, n.iter, None))
                    elif isinstance(n, (ast.GeneratorExp, ast.ListComp, ast.SetComp)):
                        g = n.generators[0]
                        tn = {x.id for x in ast.walk(g.target) if isinstance(x, ast.Name)}
                        if any(isinstance(c, ast.Call) and isinstance(c.func, ast.Attribute) and c.func.attr == "poll" and {x.id for x in ast.walk(c.func.value) if isinstance(x, ast.Name)} & tn for c in ast.walk(n.elt)):
                            iters.append((n, g.iter, n.generators))
                if not iters:
                    raise AnalysisError(f"{st}: in the condition of the polling loop of {q} but no iteration that polls its elements found")
                n_preds += 1
                for node, it, gens in iters:
                    alts = expand(defs, it)
                    bad = [a for a in alts if unparse(a) != dom]
                    filt = bool(gens) and (len(gens) > 1 or bool(gens[0].ifs))
                    ok = not bad and not filt
                    ctx.ob("R10", st, f"the predicate in the polling loop's condition ({q}) walks {dom} itself", ok, key=f"{pc.func.attr}|domain-narrowed|{unparse(bad[0])[:40] if bad else ('filter' if filt else '')}", where=loc(node), detail=None if ok else (f"on some path the domain is `{short(bad[0], 50)}`, not every started stage" if bad else "the comprehension filters its domain") + ": a stage left out is never polled again - the loop ends while it is still running and nobody reaps it")
                # a falsy answer only after the whole domain was walked
                g = _cfg.CFG(pf)
                loops = [n for n, _, gens in iters if gens is None]
                for r in [x for x in walk_local(pf) if isinstance(x, ast.Return)]:
                    v = r.value
                    falsy = v is None or (isinstance(v, ast.Constant) and not v.value)
                    if not falsy:
                        comps = [n for n, _, gens in iters if gens is not None and lexically_inside(n, r)]
                        if comps:
                            ctx.ob("R10", st, "the answer is computed over the whole walk (any/all over every stage)", True, key=f"{pc.func.attr}|early-false", where=loc(r))
                        continue
                    inside = any(lexically_inside(r, lp) for lp in loops)
                    passes = bool(loops) and not inside and all(g.dominated(rn, lambda m, lp=loops: any(m.ast is l_ for l_ in lp)) for rn in g.nodes_of(r))
                    ctx.ob("R10", st, "a falsy answer ('nobody is running') is given only after the walk over every stage", passes, key=f"{pc.func.attr}|early-false", where=loc(r), detail=None if passes else "this return is reached without walking the whole list (inside the loop, or on a path that skips it)")
    if n_loops == 0:
        raise AnalysisError(f"{PL}:CommandPipeline: no polling loop (while ... .poll() ... self.<predicate>()) found")


def _threaded_redirect_counted(ctx):
    from ..engine.loader import class_methods

    PXY = "xonsh/procs/proxies.py"
    px = ctx.repo.module(PXY)
    run = px.func("ProcProxyThread.run")
    st = f"{PXY}:ProcProxyThread.run"

    def stores_sys(fn):
        return [c for c in calls_in(fn, local=False) if call_name(c) == "setattr" and c.args and unparse(c.args[0]) == "sys"] + [a for a in ast.walk(fn) if isinstance(a, ast.Assign) and any(unparse(t).startswith("sys.std") for t in a.targets)]

    def resolve(e):
        """context expression -> (label, [functions that run on enter/exit]) for managers of the repository"""
        if not isinstance(e, ast.Call):
            return None
        nm = call_name(e) or ""
        tail = nm.split(".")[-1]
        cands = []
        for rel in (PXY, "xonsh/tools.py"):
            m = ctx.repo.module(rel)
            if m.has(tail):
                d = m.get(tail)
                if isinstance(d, ast.ClassDef):
                    ms = {}
                    for c_ in [d] + [m.get(unparse(b)) for b in d.bases if m.has(unparse(b))]:
                        if isinstance(c_, ast.ClassDef):
                            for k, v in class_methods(c_).items():
                                ms.setdefault(k, v)
                    cands = [ms[k] for k in ("__enter__", "__exit__") if k in ms]
                    # ... and the private helpers of the class they call (the store may be one call away)
                    for k_ in list(cands):
                        for c_ in calls_in(k_):
                            if isinstance(c_.func, ast.Attribute) and unparse(c_.func.value) == "self" and c_.func.attr in ms and ms[c_.func.attr] not in cands:
                                cands.append(ms[c_.func.attr])
                elif isinstance(d, FuncTypes):
                    cands = [d]
            for cq, cf in m.functions():
                if "." in cq and cq.split(".")[-1] == tail and isinstance(e.func, ast.Attribute):
                    cands = cands or [cf]
        return (nm, cands) if cands else None

    n = 0
    for w in [x for x in walk_local(run) if isinstance(x, (ast.With, ast.AsyncWith))]:
        for it in w.items:
            r_ = resolve(it.context_expr)
            if r_ is None:
                continue
            nm, fns = r_
            sites = [(f_, s_) for f_ in fns for s_ in stores_sys(f_)]
            if not sites:
                continue
            n += 1
            ok = True
            why = None
            for f_, s_ in sites:
                locked = any(isinstance(a, ast.With) and any("lock" in unparse(i.context_expr).lower() for i in a.items) for a in ancestors(s_))
                counted = any(isinstance(a, ast.If) and any(isinstance(c_, ast.Compare) and any(const_value(k, None) in (0, 1) for k in [c_.left] + c_.comparators) for c_ in ast.walk(a.test)) for a in ancestors(s_))
                if not (locked and counted):
                    ok = False
                    why = f"`{short(s_, 50)}` in {getattr(f_, '_xv_qual', f_.name)}: " + ("not under a lock" if not locked else "not governed by a user count reaching 0 / leaving 0")
            ctx.ob("R9", st, f"`{short(it.context_expr, 50)}` (entered on the alias's worker thread, stores into sys.<stream>) is reference-counted under a lock", ok, key=f"run|per-thread-save-restore|{nm}", where=loc(it.context_expr), detail=why)
    if n == 0:
        raise AnalysisError(f"{st}: no context manager that redirects a process-wide stream found around the alias call")

META = {
    "technique": "static analysis: install/restore set equality over intra-class call-graph reachability, exception-edge must-pass-through, handler-shape checks on the failure branches, sibling closer slot sets, CFG dominance under the lock",
    "text": "Decides the pairing shapes that make 'leaves the session as it found it' true on every path, including "
    "the error branches the suite does not reach: for both threaded stage classes the set of signals swapped in by "
    "the constructor equals the set restored (from the saved slot, idempotently) by methods reachable from "
    "wait()/__del__/_clean_up, and a failing Popen passes _clean_up; cmds_to_specs closes every spec on any "
    "BaseException; the pipeline start-up failure branch must close the remaining specs, return the terminal and "
    "deal with stages already started; SubprocSpec.close and _close_proc release the same slots; _end's close and "
    "ended flag are on every exit; the alias thread always closes /dev/null and ProcProxy.wait closes what it "
    "opened; PipeChannel clears the fd under the lock before os.close and hands out non-owning wrappers; "
    "safe_fdclose never closes 0-2/sys.std*; process-wide state is only changed inside paired constructs; every explicit raise on the way out of "
    "CommandPipeline.end (helpers expanded to depth 3) hands the controlling terminal back first. Actual "
    "fd/child counts are run-time state and not decided.",
    "note": "Decides the listed structural clauses, not the behaviour. Exception edges are modelled only where the "
    "function's own try/with/finally makes them observable (DESIGN Appendix A).",
    "more": 'Also decided: the descriptor handed to os.close is read inside the same locked block that clears the field (no check-then-act between concurrent closers). The overlay mapping a stage receives is created for that stage (module-level objects included). Whoever replaced sys.stdout / sys.stderr stores the saved stream back on every path on which something was installed (no \'only if I am still the installed stream\' test). The stage classes wrap the descriptors they were given without owning them (closefd=False, no os.dup). A redirection of a process-wide stream entered on worker threads must count its users under a lock (known finding: ProcProxyThread.run saves and restores per thread).',
}

META["more"] += " The liveness predicate in the condition of the polling loop walks every started stage on every path and answers 'nobody runs' only after the whole walk. Every way out of the ending step lets every finished stage put back the signal handlers it swapped in, newest first (defect repaired: a non-last alias stage kept its SIGINT handler installed)."
