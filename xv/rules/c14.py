"""C14 — history GC only ever discards the oldest, unlocked history.

Decided (JSON backend): the removal set is derived only from unlocked candidates;
each per-unit selector returns a *prefix* of the oldest-first list; ``x[:-n]`` is
never evaluated with a possibly-zero ``n``; removal is control-dependent on the
refuse-unless-forced test.  Not decided: the exact cut ("largest set that fits") and
the SQL of the SQLite keep-newest-N query.
"""

from __future__ import annotations

import ast

from .common import *

JSON = "xonsh/history/json.py"
SELECTORS = (
    "_xhj_gc_commands_to_rmfiles",
    "_xhj_gc_files_to_rmfiles",
    "_xhj_gc_seconds_to_rmfiles",
    "_xhj_gc_bytes_to_rmfiles",
)


def _positive(x_text, facts):
    """Do the facts establish ``x > 0`` (or at least x != 0)?"""
    for e, pol in facts:
        if isinstance(e, ast.Compare) and len(e.ops) == 1:
            l, op, r = e.left, e.ops[0], e.comparators[0]
            lt, rt = unparse(l), unparse(r)
            cl, cr = const_value(l, "?"), const_value(r, "?")
            if pol:
                if lt == x_text and isinstance(op, ast.Gt) and cr == 0:
                    return True
                if lt == x_text and isinstance(op, ast.GtE) and cr == 1:
                    return True
                if rt == x_text and isinstance(op, ast.Lt) and cl == 0:
                    return True
                if rt == x_text and isinstance(op, ast.LtE) and cl == 1:
                    return True
                if lt == x_text and isinstance(op, ast.NotEq) and cr == 0:
                    return True
            else:
                if lt == x_text and isinstance(op, ast.LtE) and cr == 0:
                    return True
                if lt == x_text and isinstance(op, ast.Lt) and cr == 1:
                    return True
                if lt == x_text and isinstance(op, ast.Eq) and cr == 0:
                    return True
        elif pol and unparse(e) == x_text:
            return True  # truthiness of an int: != 0
    return False


def _expr_facts(node):
    """Facts implied by enclosing conditional *expressions* (IfExp / and / or)."""
    out = []
    child = node
    for a in ancestors(node):
        if isinstance(a, ast.stmt):
            break
        if isinstance(a, ast.IfExp):
            if child is a.body:
                out += implied_facts(a.test, True)
            elif child is a.orelse:
                out += implied_facts(a.test, False)
        elif isinstance(a, ast.BoolOp):
            idx = a.values.index(child) if child in a.values else -1
            for prev in a.values[:idx] if idx > 0 else []:
                out += implied_facts(prev, isinstance(a.op, ast.And))
        child = a
    return out


def _neg_slices(tree):
    for n in ast.walk(tree):
        if isinstance(n, ast.Subscript) and isinstance(n.slice, ast.Slice):
            for bound, which in ((n.slice.upper, "upper"), (n.slice.lower, "lower")):
                if (
                    isinstance(bound, ast.UnaryOp)
                    and isinstance(bound.op, ast.USub)
                    and not isinstance(bound.operand, ast.Constant)
                ):
                    yield n, bound.operand, which


def _ret_elements(fn, index):
    """All expressions that can be element ``index`` of the tuple returned by fn,
    with local names expanded through every definition (IfExp branches split)."""
    defs = df.all_defs(fn)
    out = []

    def expand(e, depth=0):
        if depth > 6:
            raise AnalysisError(f"{loc(fn)}: return value provenance too deep")
        if isinstance(e, ast.IfExp):
            expand(e.body, depth + 1)
            expand(e.orelse, depth + 1)
        elif isinstance(e, ast.Name) and e.id in defs and not all(d.kind == "param" for d in defs[e.id]):
            for d in defs[e.id]:
                if d.kind == "assign":
                    expand(d.value, depth + 1)
                else:
                    out.append((e, f"{d.kind}-bound {e.id}"))
        else:
            out.append((e, None))

    for n in walk_local(fn):
        if isinstance(n, ast.Return):
            v = n.value
            if not isinstance(v, ast.Tuple) or len(v.elts) <= index:
                raise AnalysisError(f"{loc(n)}: selector does not return a (size, files) tuple literal")
            expand(v.elts[index])
    return out


def check(ctx):
    ctx.not_decided += [
        "the exact cut k ('largest set of newest files that fits')",
        "SQL semantics of the SQLite keep-newest-N query beyond column/direction agreement",
        "limit parsing for all strings (to_history_tuple)",
    ]
    ctx.rule("R1", "GC candidates are unlocked and os.remove is applied only to the selector's result", floor=5)
    ctx.rule("R2", "each per-unit selector returns only files[:k], files or [] of the oldest-first list; files() sorts ascending", floor=6)
    ctx.rule("R3", "no slice bound `-n` is evaluated unless n > 0 is established (x[:-0] == [] trap)", floor=1)
    ctx.rule("R5", "SQLite backend: the GC query cuts on the same age column the backend orders reads by, newest first", floor=4)
    ctx.rule("R4", "removal is control-dependent on `force or size_over < hsize`", floor=1)
    ctx.rule("R11", "SQLite backend: collection trims the session's own database: every call made by a method of SqliteHistory to a function or class of the backend module that accepts a `filename` hands it the session's (`self.filename`) - the GC thread included; a call that leaves it out acts on the default database, so with a custom `*.sqlite` history file the session's table is never trimmed (and another one is)", floor=8)
    ctx.rule("R10", "the boot time a stale lock is judged by counts the time the machine was suspended: on Linux it is computed from CLOCK_BOOTTIME only (CLOCK_MONOTONIC stops during suspend: the 'boot' then lies later than the start of every session that was running before the suspend, and the GC unlocks - and deletes - a live session's file)", floor=1)
    ctx.rule("R9", "every history file is enumerated once: where the enumeration adds $XONSH_HISTORY_FILE 'unless it is listed already', the membership test looks for the path among paths - not among the (path, mtime) pairs the list still holds before the mtimes are dropped (always 'not listed': the file is counted twice and an unforced GC removes the oldest sessions of a history that fits its limit)", floor=1)
    ctx.rule("R8", "the live session's file stays locked for as long as the session lives: every whole-file rewrite of the session's own file by a JsonHistory method (other than creating it) dumps a mapping that carries the file's metadata over - loaded from the file, or written with `locked` and `ts` - a file without them is, to every GC pass, the oldest unlocked one", floor=1)
    ctx.rule("R7", "the limit text is read in full and its unit by one exact table lookup: a regular expression applied to the limit matches the whole text (what it does not understand is an error, never dropped), and the unit spelling is a key of the unit table - no partial match against the table's keys", floor=2)
    ctx.rule("R6", "a session's file is marked unlocked only when the session ends (or by the reboot repair): the flag is cleared under the at-exit mode only, and only session-end code asks for that mode", floor=3)

    mod = ctx.repo.module(JSON)
    run = mod.func("JsonHistoryGC.run")
    # helper-transparent view: the stale-lock rewrite may live in an extracted helper; the order "rewrite, then stat"
    # and the guards of the appends are the same facts wherever the statements were written
    files_fn = flat(ctx, mod.func("JsonHistoryGC.files"), depth=2)
    init = mod.func("JsonHistoryGC.__init__")
    st_run = f"{JSON}:JsonHistoryGC.run"
    defs = df.all_defs(run)
    cfg = CFG(run)

    # ---- R1a: every os.remove in run() removes an element of the selector result
    removes = [c for c in calls_in(run) if call_name(c) in ("os.remove", "os.unlink")]
    if not removes:
        raise AnchorMissing(f"{JSON}: JsonHistoryGC.run no longer removes files")
    sel_calls = []
    for c in removes:
        arg = c.args[0] if c.args else None
        ok = False
        why = "argument is not a loop variable over the selector result"
        if isinstance(arg, ast.Name):
            src = element_source(run, arg.id, defs)
            if isinstance(src, ast.Name):
                sd = defs.get(src.id, [])
                if len(sd) == 1 and sd[0].kind == "unpack" and sd[0].index == 1 and isinstance(sd[0].value, ast.Call):
                    sel_calls.append(sd[0].value)
                    ok = True
        ctx.ob("R1", st_run, f"{short(c)} removes an element of the selector's result list", ok, key="run|remove-arg", detail=None if ok else why, where=loc(c))
    # ---- R1b: the selector is one of the four, looked up from the unit table, and fed files(only_unlocked=True)
    table = None
    for n in walk_local(init):
        if isinstance(n, ast.Assign) and any(dotted(t) == "self.gc_units_to_rmfiles" for t in n.targets):
            table = n.value
    if not isinstance(table, ast.Dict):
        raise AnchorMissing(f"{JSON}: JsonHistoryGC.__init__ has no gc_units_to_rmfiles dict literal")
    vals = {const_value(k): unparse(v) for k, v in zip(table.keys, table.values)}
    for unit, fname in sorted(vals.items()):
        ctx.ob("R1", f"{JSON}:JsonHistoryGC.__init__", f"unit {unit!r} maps to a selector analysed by R2 ({fname})", fname in SELECTORS, key=f"table|{unit}")
    for sc in sel_calls:
        f = df.resolve_copy(defs, sc.func)
        from_table = "gc_units_to_rmfiles" in unparse(f)
        ctx.ob("R1", st_run, f"the selector called is taken from the unit table ({short(f)})", from_table, key="run|selector-source", where=loc(sc))
        cand = sc.args[1] if len(sc.args) > 1 else None
        cexpr = df.resolve_copy(defs, cand) if cand is not None else None
        ok = (
            isinstance(cexpr, ast.Call)
            and call_name(cexpr) == "self.files"
            and const_value(kwarg(cexpr, "only_unlocked") or (cexpr.args[0] if cexpr.args else None)) is True
        )
        # the candidate list must not be re-bound from anything else
        if isinstance(cand, ast.Name):
            ok = ok and len(defs.get(cand.id, [])) == 1
        ctx.ob("R1", st_run, "the candidate list is exactly self.files(only_unlocked=True)", ok, key="run|candidates-unlocked", where=loc(sc), detail=short(cexpr) if cexpr is not None else None)
    # ---- R1c: in files(): append of a parsed file is guarded by the lock filter
    fcfg = CFG(files_fn)
    fdefs = df.all_defs(files_fn)
    # role: the result list = the local that is returned (and sorted)
    FILES = {n_ for n_ in returned_names(files_fn)}
    appends = [c for c in calls_in(files_fn) if isinstance(c.func, ast.Attribute) and c.func.attr == "append" and isinstance(c.func.value, ast.Name) and c.func.value.id in FILES]
    if len(appends) < 1:
        raise AnchorMissing(f"{JSON}: JsonHistoryGC.files no longer appends to `files`")
    n_guarded = 0
    for c in appends:
        facts = []
        for n in node_in(fcfg, stmt_of(c)):
            facts = facts_at(fcfg, n)
        txt = facts_text(facts)
        SIZE = names_bound_to_call(files_fn, lambda nm_: nm_ in ("os.path.getsize",) or nm_.endswith(".st_size"), fdefs)
        empty = any(pol and isinstance(e, ast.Compare) and (unparse(e.left) in SIZE or "size" in unparse(e.left).lower()) and isinstance(e.ops[0], ast.Eq) and const_value(e.comparators[0]) == 0 for e, pol in facts)
        # lock filter: false edge of a test mentioning only_unlocked and "locked"
        lock = False
        for test, pol in fcfg.guards(node_in(fcfg, stmt_of(c))[0]):
            if not pol:
                cs = conjuncts(test)
                if any(unparse(x) == "only_unlocked" for x in cs) and any("locked" in unparse(x) and isinstance(x, ast.Call) for x in cs) and len(cs) == 2:
                    lock = True
        if lock:
            n_guarded += 1
        ctx.ob(
            "R1",
            f"{JSON}:JsonHistoryGC.files",
            f"{short(c, 70)} happens only for an empty file or after the `only_unlocked and locked -> skip` filter",
            empty or lock,
            key="files|append-unguarded",
            where=loc(c),
            detail="; ".join(txt)[:200],
        )
    ctx.ob("R1", f"{JSON}:JsonHistoryGC.files", "at least one append is behind the lock filter", n_guarded >= 1, key="files|no-lock-filter")
    # returned list is the sorted `files`
    rets = [n for n in walk_local(files_fn) if isinstance(n, ast.Return) and n.value is not None]
    sorts = [c for c in calls_in(files_fn) if isinstance(c.func, ast.Attribute) and c.func.attr == "sort" and isinstance(c.func.value, ast.Name) and c.func.value.id in FILES]
    asc = bool(sorts) and all(
        not any(k.arg == "reverse" and const_value(k.value) is not False for k in c.keywords) and not any(k.arg == "key" for k in c.keywords) and not c.args
        for c in sorts
    )
    ctx.ob("R2", f"{JSON}:JsonHistoryGC.files", "files() sorts the (timestamp, ...) tuples ascending (oldest first) with the default key", asc, key="files|sort", where=loc(sorts[0]) if sorts else loc(files_fn))
    for r in rets:
        v = r.value
        if isinstance(v, ast.List) and not v.elts:
            continue
        okret = isinstance(v, ast.Name) and v.id in FILES and bool(sorts) and v.id == sorts[0].func.value.id
        dom = False
        if okret and sorts:
            for n in node_in(fcfg, r):
                dom = fcfg.dominated(n, lambda m: m.ast is stmt_of(sorts[0]))
        ctx.ob("R2", f"{JSON}:JsonHistoryGC.files", f"`{short(r)}` returns the list after it was sorted", okret and dom, key="files|return-unsorted", where=loc(r))
    # the sort key must not depend on file-system metadata that this very enumeration changes:
    # the stale-lock rewrite replaces the file (new mtime/size); a stat of the same path taken
    # afterwards in the same iteration and used as age key makes an ancient crashed session sort newest
    loop_hdrs = [n for n in fcfg.nodes if n.kind == "for"]
    writes = [n for n in fcfg.nodes if n.kind == "stmt" and any(call_name(c) in ("os.replace", "os.rename") or (call_name(c) == "open" and is_write_mode(open_mode(c) or "r")) for c in calls_in(n.ast))]
    for c in appends:
        tup = c.args[0] if c.args else None
        key = tup.elts[0] if isinstance(tup, ast.Tuple) and tup.elts else tup
        if key is None:
            continue
        stats = []
        for x in ast.walk(key):
            if isinstance(x, ast.Name):
                for d in fdefs.get(x.id, []):
                    if d.value is not None:
                        stats += [(y, d.stmt) for y in ast.walk(d.value) if isinstance(y, ast.Call) and (call_name(y) or "") in ("os.path.getmtime", "os.path.getctime", "os.path.getatime", "os.stat", "os.path.getsize")]
            if isinstance(x, ast.Call) and (call_name(x) or "") in ("os.path.getmtime", "os.path.getctime", "os.path.getatime", "os.stat"):
                stats.append((x, stmt_of(x)))
        bad = None
        for call, st in stats:
            sn = fcfg.nodes_of(st)
            # reachable from a rewrite of the same path within one iteration (do not cross the loop header)
            for w in writes:
                seen = fcfg.reach([w], stop=lambda m: m in loop_hdrs)
                if any(n_ in seen for n_ in sn):
                    bad = (call, w)
        ctx.ob("R2", f"{JSON}:JsonHistoryGC.files", f"the age key `{short(key, 50)}` of `{short(c, 40)}` does not read file-system metadata after this enumeration rewrote the file (stale-lock unlock)", bad is None, key="files|age-key-after-own-rewrite", where=loc(c), detail=f"`{short(bad[0])}` is evaluated after `{short(bad[1].ast, 50)}` in the same iteration" if bad else None)
    ctx.extra["age_keys"] = [short(c.args[0].elts[0], 60) for c in appends if c.args and isinstance(c.args[0], ast.Tuple)]

    # ---- R2 selectors
    for s in SELECTORS:
        fn = flat(ctx, mod.func(s), depth=2)
        params = [a.arg for a in fn.args.args]
        if len(params) != 2:
            raise AnalysisError(f"{JSON}:{s}: expected (hsize, files) parameters")
        fparam = params[1]
        for e, odd in _ret_elements(fn, 1):
            ok = False
            form = unparse(e)
            if odd is None:
                if is_name(e, fparam):
                    ok = True
                elif isinstance(e, ast.List) and not e.elts:
                    ok = True
                elif (
                    isinstance(e, ast.Subscript)
                    and is_name(e.value, fparam)
                    and isinstance(e.slice, ast.Slice)
                    and e.slice.lower is None
                    and e.slice.step is None
                ):
                    ok = True
            ctx.ob("R2", f"{JSON}:{s}", f"returned file list `{form}` is a prefix of the oldest-first input (files[:k] | files | [])", ok, key=f"{s}|non-prefix|{form}", where=loc(e))
        # the parameter must not be re-bound or mutated
        fdefs2 = df.all_defs(fn)
        rebound = [d for d in fdefs2.get(fparam, []) if d.kind != "param"]
        mut = [c for c in calls_in(fn) if isinstance(c.func, ast.Attribute) and is_name(c.func.value, fparam) and c.func.attr in ("sort", "reverse", "pop", "remove", "insert", "append", "extend", "clear")]
        ctx.ob("R2", f"{JSON}:{s}", "the oldest-first input list is neither re-bound nor reordered", not rebound and not mut, key=f"{s}|input-mutated")

    # ---- R3 negative-zero slices in xonsh/history
    positive_example(
        "def f(xs, n):\n    return xs[:-n] if len(xs) > n else []\n",
        lambda t: any(True for _ in _neg_slices(t)),
        "C14.R3 negative slice recogniser",
    )
    for m in ctx.repo.modules("xonsh/history"):
        for sub, operand, which in _neg_slices(m.tree):
            fn = enclosing_func(sub)
            q = qual_of(fn) if fn is not None else "<module>"
            facts = _expr_facts(sub)
            if fn is not None:
                c2 = CFG(fn)
                for n in c2.nodes_of(stmt_of(sub)):
                    facts += facts_at(c2, n)
                    break
            x = unparse(operand)
            ok = _positive(x, facts)
            ctx.ob(
                "R3",
                f"{m.rel}:{q}",
                f"`{short(sub)}`: {which} bound -{x} is evaluated only when {x} > 0 is established",
                ok,
                key=f"{q}|neg-slice|{unparse(sub)}",
                where=loc(sub),
                detail="facts: " + ("; ".join(facts_text(facts)) or "none"),
            )

    # ---- R4 refuse unless forced
    # decided on the guards that dominate the removal, by three-valued evaluation under the assignment
    # "not forced AND NOT (discarded < limit)": some guard must then be violated, i.e. the removal is unreachable
    # in exactly the situation the contract refuses — whatever the shape (nested if, early return, De Morgan)
    for c in removes:
        guards = []
        for n in node_in(cfg, stmt_of(c)):
            guards = cfg.guards(n)
        # the comparison atom: discarded amount (selector result [0]) < limit (the selector's first argument)
        amt = {n_ for n_, ds_ in defs.items() if len(ds_) == 1 and ds_[0].kind == "unpack" and ds_[0].index == 0 and any(ds_[0].value is sc for sc in sel_calls)}
        lim = {unparse(sc.args[0]) for sc in sel_calls if sc.args}

        def atoms(e):
            if unparse(e) == "self.force_gc":
                return False
            ca = cmp_atom(e)
            if ca and ca[0] in amt and ca[1] in lim:
                return True if ca[2] else False  # `amt < lim` is False under the assignment; its negation True
            return None

        blocked = any(ev3(t, atoms) is (not pol) for t, pol in guards)
        mentions = any("self.force_gc" in unparse(t) for t, _ in guards)
        ctx.ob("R4", st_run, f"{short(c)} is unreachable when neither forced nor `discarded < limit` (control-dependent on `self.force_gc or size_over < hsize`)", blocked and mentions, key="run|refuse-unless-forced", where=loc(c), detail="guards: " + "; ".join(("" if p else "not ") + short(t, 60) for t, p in guards))


    # ---- R5 SQLite backend: the cut is made on the age column
    # "newest N commands" is decided by the command's start time `tsb` everywhere in the backend (reads order by
    # it).  The GC query must cut on that same column: the implicit rowid is insertion order, which differs from
    # age when two shells share the file or an older history is merged in.
    import re as _re

    sq = ctx.repo.module("xonsh/history/sqlite.py")

    def sql_text(fn_):
        parts = []
        for n_ in ast.walk(fn_):
            if isinstance(n_, ast.Constant) and isinstance(n_.value, str):
                parts.append(n_.value)
        return " ".join(parts)

    def cols(rx, text):
        return {m_.lower() for m_ in _re.findall(rx, text, _re.I)}

    readers = [fn_ for q_, fn_ in sq.functions() if q_ in ("_xh_sqlite_get_records",)]
    if not readers:
        raise AnchorMissing("xonsh/history/sqlite.py: _xh_sqlite_get_records")
    age_cols = cols(r"ORDER BY\s+(\w+)", sql_text(readers[0]))
    if len(age_cols) != 1:
        raise AnalysisError(f"xonsh/history/sqlite.py:_xh_sqlite_get_records: the age column is not unique ({sorted(age_cols)})")
    age = next(iter(age_cols))
    # the GC query is found by its role, not by the name of the function it is written in: the function(s) whose own
    # SQL text deletes rows below/above a cut on a column (or keeps a `NOT IN (SELECT ...)` set).  Point deletions
    # (`WHERE sessionid = ?`, `WHERE inp = ? AND rowid != ?`) are not garbage collection.
    def sql_source(fn_):
        """the string literals of fn_ in source order; a formatted value (table name ...) is a `{}` placeholder"""
        lits = []
        inner = set()
        for n_ in ast.walk(fn_):
            if isinstance(n_, ast.JoinedStr):
                inner |= {id(v_) for v_ in n_.values}
                lits.append((n_.lineno, n_.col_offset, "".join(v_.value if isinstance(v_, ast.Constant) and isinstance(v_.value, str) else "{}" for v_ in n_.values)))
        for n_ in ast.walk(fn_):
            if isinstance(n_, ast.Constant) and isinstance(n_.value, str) and id(n_) not in inner:
                lits.append((n_.lineno, n_.col_offset, n_.value))
        return " ".join(t_ for _, _, t_ in sorted(lits))

    RX_CUT = r"DELETE\s+FROM\s+\S+\s+WHERE\s+(?:\w+\s*(?:<(?!>)|>)|\w+\s+NOT\s+IN\s*\(\s*SELECT\b)"
    positive_example(
        'def f(c, n):\n    c.execute(f"DELETE FROM {T} WHERE ts <= ?", (n,))\n',
        lambda t: bool(_re.search(RX_CUT, sql_source(t), _re.I)),
        "C14.R5 GC query recogniser",
    )
    positive_example(
        'def f(c, n):\n    c.execute(f"DELETE FROM {T} WHERE sid = ? AND rowid != ?", (n,))\n    c.execute(f"DELETE FROM {T} WHERE a <> ?")\n',
        lambda t: not _re.search(RX_CUT, sql_source(t), _re.I),
        "C14.R5 GC query recogniser (point deletions are not a cut)",
    )
    gc_fns = [(q_, fn_) for q_, fn_ in sq.functions() if _re.search(RX_CUT, sql_source(fn_), _re.I)]
    if not gc_fns:
        raise AnchorMissing("xonsh/history/sqlite.py: no function whose SQL deletes rows by a cut on a column (the GC query)")

    def gc_shape(text):
        return {
            "ordered by": cols(r"ORDER BY\s+(\w+)", text),
            "minimum of": cols(r"min\(\s*(\w+)\s*\)", text),
            "deleted below": cols(r"WHERE\s+(\w+)\s*<", text),
        }

    for q_, gc_fn in gc_fns:
        st5 = f"xonsh/history/sqlite.py:{q_}"
        txt = sql_text(gc_fn)
        used = gc_shape(txt)
        if not all(used.values()):
            # the cut may be computed by a helper of this function: read the query through the helper-transparent view
            txt = sql_text(flat(ctx, gc_fn, depth=2))
            used = gc_shape(txt)
        if not all(used.values()):
            raise AnalysisError(f"{st5}: GC query shape not recognised ({used})")
        for what, cs in used.items():
            ctx.ob("R5", st5, f"the GC cut is {what} the age column `{age}` that every read orders by (not insertion order)", cs == {age}, key=f"sqlite-gc|{what}", where=loc(gc_fn), detail=f"found {sorted(cs)}")
        ctx.ob("R5", st5, "the kept set is the top of a descending order (newest first) limited to the size to keep", bool(_re.search(r"ORDER BY\s+\w+\s+DESC", txt, _re.I)) and "LIMIT" in txt.upper(), key="sqlite-gc|direction", where=loc(gc_fn))

    _lock_release(ctx)
    _limit_parsing(ctx)
    _rewrite_keeps_lock(ctx)
    _enumerated_once(ctx)
    _boot_clock(ctx)
    _sqlite_acts_on_own_file(ctx)


SESSION_END = {
    "xonsh/built_ins.py:XonshSession.unload": "the session is being torn down",
}


def _lock_release(ctx):
    """`locked: False` is what makes a file a GC candidate (R1).  Where may it be written?"""
    mod = ctx.repo.module(JSON)
    mode_attrs = set()
    def unlocks(n):
        return isinstance(n, ast.Assign) and any(isinstance(t, ast.Subscript) and const_value(t.slice, None) == "locked" for t in n.targets) and const_value(n.value, True) is False

    funcs = dict(mod.functions())
    methods = {q for q in funcs if "." in q}
    views = {}

    def view(q):
        if q not in views:
            views[q] = flat(ctx, funcs[q], 2)
        return views[q]

    def origin(n, q):
        """where the statement was written: an expanded helper's statement keeps its helper and its line"""
        return (getattr(n, "_xv_from", None) or (mod.rel, q), n.lineno)

    def visible(q):
        return {origin(n, q) for n in walk_local(view(q)) if unlocks(n)}

    def callers_of(q):
        bare = q.split(".")[-1]
        return [q2 for q2, f2 in funcs.items() if q2 != q and any((call_name(c) or "").split(".")[-1] == bare for c in calls_in(f2))]

    def private_helper(q):
        """a private method that only the classes of this module call: part of its callers, like a module-level helper"""
        bare = q.split(".")[-1]
        return bare.startswith("_") and not bare.startswith("__") and only_called_from(ctx.repo, mod, q, methods)

    # unlock sites that are not judged in the function they are written in, because the test that justifies them is
    # made by the caller (extracted helper).  They are judged in every caller's helper-transparent view instead; that
    # each caller really shows them is checked below (otherwise the site would be judged nowhere: analysis error).
    deferred = {}
    judged = set()
    for q, fn0 in mod.functions():
        if "." not in q:
            # a module-level helper that unlocks is judged where it is called (expanded into its callers below)
            own = {origin(n, q) for n in walk_local(fn0) if unlocks(n)}
            if own:
                ok = only_called_from(ctx.repo, mod, q, methods)
                ctx.ob("R6", f"{JSON}:{q}", "an unlocking helper is called only from the history classes of this module (and judged there)", ok, key=f"{q}|unlock-helper-escapes", where=loc(fn0))
                if ok:
                    deferred[q] = own
            continue
        fn = view(q)
        cfg = None
        for n in walk_local(fn):
            if not unlocks(n):
                continue
            cfg = cfg or CFG(fn)
            nodes = cfg.nodes_of(n)
            facts = nfacts(cfg, nodes[0]) if nodes else set()
            pos = {t for t, pol in facts if pol}
            st = f"{JSON}:{q}"
            if q.startswith("JsonHistoryGC."):
                # the reboot repair: the session that held the lock cannot be alive if it started before this boot
                # role, not spelling: the local(s) holding the boot time are those bound from a *boottime() call
                boots = names_bound_to_call(fn, lambda nm_: (nm_ or "").split(".")[-1].endswith("boottime")) | {"boottime()"}
                ok = any("<" in t and any(t.rstrip().endswith("< " + b) or b in t.split("<", 1)[1] for b in boots) for t in pos) and any("locked" in t for t in pos)
                text, key = "the GC clears a lock only for a file that is locked and was created before the last boot", f"{q}|unlock-without-boot-test"
            else:
                modes = {t for t in pos if t.startswith("self.") and "exit" in t}
                ok = bool(modes)
                mode_attrs |= {t.split(".", 1)[1] for t in modes}
                text, key = "the lock flag is cleared only under the flusher's at-exit mode", f"{q}|unlock-outside-at-exit"
            if not ok and private_helper(q):
                deferred.setdefault(q, set()).add(origin(n, q))
                continue
            judged.add(origin(n, q))
            ctx.ob("R6", st, text, ok, key=key, where=loc(n), detail=f"facts: {sorted(pos)}")

    def require_visible(q, orgs, depth=3):
        for q2 in callers_of(q):
            missing = orgs - visible(q2)
            if missing:
                raise AnalysisError(f"{JSON}:{q2}: the write of `locked: False` in helper {q} (line {sorted(l_ for _, l_ in missing)[0]}) is not visible in this caller's helper-transparent view; it cannot be judged in its calling context")
            if "." not in q2:
                # a module-level caller is not judged itself: its own callers have to show the site
                if depth == 0:
                    raise AnalysisError(f"{JSON}:{q}: chain of unlocking helpers too deep")
                require_visible(q2, orgs, depth - 1)

    for q, orgs in sorted(deferred.items()):
        require_visible(q, orgs)
    n_sites = len(judged)
    if n_sites < 2:
        raise AnalysisError(f"{JSON}: only {n_sites} writes of `locked: False` found (expected the flusher and the reboot repair)")
    # the mode is the constructor parameter, and JsonHistory.flush passes its own parameter through
    fi = mod.func("JsonHistoryFlusher.__init__")
    fparams = {a_.arg for a_ in fi.args.args + fi.args.kwonlyargs}
    for a in sorted(mode_attrs):
        srcs = [n.value for n in walk_local(fi) if isinstance(n, ast.Assign) and any(unparse(t) == f"self.{a}" for t in n.targets)]
        ok = bool(srcs) and all(isinstance(v, ast.Name) and v.id in fparams for v in srcs)
        ctx.ob("R6", f"{JSON}:JsonHistoryFlusher.__init__", f"`self.{a}` is the constructor's parameter, unchanged", ok, key=f"flusher-init|mode-not-param|{a}", where=loc(fi))
    fl = mod.func("JsonHistory.flush")
    flp = {a_.arg for a_ in fl.args.args + fl.args.kwonlyargs}
    ctor = [c for c in calls_in(fl) if (call_name(c) or "").endswith("JsonHistoryFlusher")]
    if not ctor:
        raise AnchorMissing(f"{JSON}:JsonHistory.flush: construction of the flusher")
    mode_param = None
    for c in ctor:
        kw = [k for k in c.keywords if k.arg in mode_attrs]
        ok = bool(kw) and all(isinstance(k.value, ast.Name) and k.value.id in flp and not [d for d in df.all_defs(fl).get(k.value.id, []) if d.kind != "param"] for k in kw)
        if ok:
            mode_param = kw[0].value.id
        ctx.ob("R6", f"{JSON}:JsonHistory.flush", "the flusher's mode is flush()'s own parameter, not recomputed", ok, key="flush|mode-not-passed-through", where=loc(c))
    if mode_param is None:
        return
    # who asks for the at-exit mode?  every call of a .flush(..) in the package that passes the parameter
    pidx = [a_.arg for a_ in fl.args.args if a_.arg != "self"].index(mode_param) if mode_param in [a_.arg for a_ in fl.args.args] else None
    n_calls = 0
    for m2 in ctx.repo.modules("xonsh", containing=mode_param):
        for q2, f2 in m2.functions():
            for c in calls_in(f2):
                if not (isinstance(c.func, ast.Attribute) and c.func.attr == "flush"):
                    continue
                v = kwarg(c, mode_param)
                if v is None and pidx is not None and len(c.args) > pidx:
                    v = c.args[pidx]
                if v is None or const_value(v, True) is False:
                    continue
                n_calls += 1
                site = f"{m2.rel}:{q2}"
                # session-end code of this module: the table, plus closures handed to atexit.register where they are defined
                ends = {k.split(":", 1)[1]: v for k, v in SESSION_END.items() if k.startswith(m2.rel + ":")}
                for q3, f3 in m2.functions():
                    parent = m2.quals.get(q3.rsplit(".", 1)[0]) if "." in q3 else None
                    if parent is not None and isinstance(parent, (ast.FunctionDef, ast.AsyncFunctionDef)) and any(call_name(c2) == "atexit.register" and c2.args and isinstance(c2.args[0], ast.Name) and c2.args[0].id == f3.name for c2 in ast.walk(parent) if isinstance(c2, ast.Call)):
                        ends[q3] = "registered with atexit.register"
                        ends.setdefault(q3.rsplit(".", 1)[0], "defines the atexit hook (the closure's calls are attributed to it as well)")
                why = ends.get(q2)
                if why is None and only_called_from(ctx.repo, m2, q2, set(ends)):
                    why = "helper called only from session-end code"
                ctx.ob("R6", site, f"`{short(c, 50)}` asks for the at-exit flush (which unlocks the file) from session-end code" + (f": {why}" if why else ""), why is not None, key=f"{q2}|at-exit-flush-in-live-session", where=loc(c))
    if n_calls < 1:
        raise AnalysisError("no at-exit flush call site found in the package (expected the atexit hook and the session unload)")



def _limit_parsing(ctx):
    """$XONSH_HISTORY_SIZE / `history gc --size` reach the GC through tools.to_history_tuple.  A limit that is
    read differently from what was written (`1,000 files` -> 1 command, `600 MiB` -> 600 minutes) makes the GC
    delete history that is within the limit the user named."""
    TL = "xonsh/tools.py"
    tm = ctx.repo.module(TL)
    fn = flat(ctx, tm.func("to_history_tuple"), depth=3)
    st = f"{TL}:to_history_tuple"
    from ..engine.fold import Folder, NotConstant
    import re._parser as sre

    folder = Folder(tm)
    n_rx = 0
    for c in calls_in(fn):
        if not (isinstance(c.func, ast.Attribute) and c.func.attr in ("match", "search", "fullmatch", "findall", "finditer", "split", "sub")):
            continue
        recv = c.func.value
        pat = None
        if isinstance(recv, ast.Name) and recv.id in tm.assigns:
            v = tm.assigns[recv.id][-1].value
            # LazyObject(lambda: re.compile(<pattern>), ...) or re.compile(<pattern>)
            comp = next((x for x in ast.walk(v) if isinstance(x, ast.Call) and call_name(x) in ("re.compile",)), None)
            if comp is not None and comp.args:
                try:
                    pat = folder.fold(comp.args[0], {})
                except NotConstant:
                    pat = None
        elif call_name(c) in ("re.match", "re.search", "re.fullmatch") and c.args:
            try:
                pat = folder.fold(c.args[0], {})
            except NotConstant:
                pat = None
        else:
            continue
        n_rx += 1
        if c.func.attr == "fullmatch":
            ok = True
        elif c.func.attr in ("match", "search") and isinstance(pat, str):
            try:
                items = list(sre.parse(pat))
            except Exception:
                items = []
            ok = bool(items) and str(items[-1][0]) == "AT" and str(items[-1][1]) in ("AT_END", "AT_END_STRING")
        else:
            ok = False
        ctx.ob("R7", st, f"`{short(c, 60)}` matches the whole limit text (fullmatch, or a pattern anchored at the end): with a prefix match `1,000 files` is read as 1 command and `1_000 commands` as 1 command", ok, key="limit|prefix-match", where=loc(c))
    if n_rx == 0:
        raise AnalysisError(f"{st}: no regular expression applied to the limit text found")
    # unit resolution: the (unit, converter) pair comes out of the table by subscript/get with a key derived from
    # the input by str()/lower()/strip()/casefold() only; nothing on the parse path walks the table's keys
    TABLE = "HISTORY_UNITS"
    if TABLE not in tm.assigns:
        raise AnchorMissing(f"{TL}: {TABLE}")
    n_lk = 0
    for n in walk_local(fn):
        if isinstance(n, ast.Subscript) and isinstance(n.value, ast.Name) and n.value.id == TABLE and isinstance(n.ctx, ast.Load):
            n_lk += 1
        elif isinstance(n, ast.Call) and isinstance(n.func, ast.Attribute) and isinstance(n.func.value, ast.Name) and n.func.value.id == TABLE and n.func.attr == "get":
            n_lk += 1
    partial = []
    for n in walk_local(fn):
        it = None
        if isinstance(n, (ast.For, ast.comprehension)):
            it = n.iter
        if it is None:
            continue
        txt = unparse(it)
        if not (txt == TABLE or txt.startswith(TABLE + ".") or f"({TABLE})" in txt or f"({TABLE}." in txt):
            continue
        # what is done with the keys: equality tests are an exact lookup spelled as a loop; anything else is partial
        scope = n if isinstance(n, ast.For) else parent(n)
        for x in ast.walk(scope):
            if isinstance(x, ast.Call) and isinstance(x.func, ast.Attribute) and x.func.attr in ("startswith", "endswith", "find", "index", "rfind", "removesuffix", "removeprefix", "match", "search", "get_close_matches"):
                partial.append(x)
            elif isinstance(x, ast.Compare) and any(isinstance(o, (ast.In, ast.NotIn)) for o in x.ops) and not any(unparse(cm) == TABLE for cm in x.comparators):
                partial.append(x)
    ctx.ob("R7", st, f"the unit is resolved by an exact lookup in {TABLE} (subscript / get)", n_lk >= 1, key="limit|unit-not-from-table", where=loc(fn))
    ctx.ob("R7", st, f"no partial match of the unit spelling against the keys of {TABLE} (a spelling the table does not list is an error: `MiB` must not become minutes, `sessions` not seconds)", not partial, key="limit|unit-partial-match", where=loc(partial[0]) if partial else loc(fn), detail=short(partial[0], 80) if partial else None)


def _rewrite_keeps_lock(ctx):
    from ..engine.loader import class_methods

    mod = ctx.repo.module(JSON)
    n = 0
    for nm, m in class_methods(mod.cls("JsonHistory")).items():
        if nm == "__init__":
            continue  # creates the file from the metadata the session was started with
        fn = flat(ctx, m, 2)
        defs = df.all_defs(fn)
        for c in calls_in(fn):
            if (call_name(c) or "").split(".")[-1] not in ("ljdump", "dump") or not c.args or not (call_name(c) or "").split(".")[0] in ("xlj", "ljdump", "json", "lazyjson"):
                continue
            # only rewrites of the session's own file: the handle comes from open(self.filename, 'w')
            w = next((a for a in ancestors(c) if isinstance(a, ast.With) and any(isinstance(it.context_expr, ast.Call) and call_name(it.context_expr) in ("open", "io.open") and it.context_expr.args and unparse(it.context_expr.args[0]) == "self.filename" and is_write_mode(open_mode(it.context_expr) or "r") for it in a.items)), None)
            if w is None:
                continue
            n += 1
            a0 = c.args[0]
            srcs = [a0] if not isinstance(a0, ast.Name) else [d.value for d in defs.get(a0.id, []) if d.value is not None and d.kind == "assign"]
            loaded = any(isinstance(v, ast.Call) and last_attr(v) == "load" for v in srcs)
            shown = [v for v in srcs if isinstance(v, ast.Dict) and v.keys]
            keys_ok = bool(shown) and all({"locked", "ts"} <= {const_value(k, None) for k in v.keys if k is not None} for v in shown)
            ok = (loaded and not shown) or keys_ok or (loaded and keys_ok)
            ctx.ob("R8", f"{JSON}:JsonHistory.{nm}", f"`{short(c, 50)}` rewrites the session's own file with its metadata (`locked`, `ts`) carried over", ok, key=f"JsonHistory.{nm}|rewrite-drops-lock", where=loc(c), detail=None if ok else f"dumped mapping comes from {[short(v, 50) for v in srcs]}")
    if n == 0:
        ctx.ob("R8", f"{JSON}:JsonHistory", "no method rewrites the session's own file in place (the flusher's read-extend-replace keeps whatever the file holds)", True, key="JsonHistory|no-own-rewrite")


def _enumerated_once(ctx):
    """shape of the elements of a local list (pair / scalar), followed statement by statement through the enumerator"""
    mod = ctx.repo.module(JSON)
    fn = mod.func("_xhj_get_history_files")
    st = f"{JSON}:_xhj_get_history_files"
    shape = {}
    tests = []

    def elt_shape(e):
        if isinstance(e, ast.Tuple):
            return "pair"
        if isinstance(e, (ast.Name, ast.Subscript, ast.Call, ast.Constant, ast.Attribute, ast.JoinedStr)):
            return "scalar"
        return "?"

    def visit(stmts):
        for s_ in stmts:
            for c in [x for x in ast.walk(s_) if isinstance(x, ast.Compare) and len(x.ops) == 1 and isinstance(x.ops[0], (ast.In, ast.NotIn)) and isinstance(x.comparators[0], ast.Name) and x.comparators[0].id in shape] if not isinstance(s_, (ast.For, ast.While, ast.If, ast.With, ast.Try)) else []:
                tests.append((c, shape.get(c.comparators[0].id), elt_shape(c.left)))
            if isinstance(s_, ast.Assign) and len(s_.targets) == 1 and isinstance(s_.targets[0], ast.Name):
                nm, v = s_.targets[0].id, s_.value
                if isinstance(v, ast.List):
                    shape[nm] = elt_shape(v.elts[0]) if v.elts else "empty"
                elif isinstance(v, ast.ListComp):
                    shape[nm] = elt_shape(v.elt)
                elif isinstance(v, ast.Call) and call_name(v) in ("sorted", "list") and v.args and isinstance(v.args[0], ast.Name) and v.args[0].id in shape:
                    shape[nm] = shape[v.args[0].id]
                elif nm in shape:
                    shape[nm] = "?"
            elif isinstance(s_, ast.Expr) and isinstance(s_.value, ast.Call) and isinstance(s_.value.func, ast.Attribute) and isinstance(s_.value.func.value, ast.Name) and s_.value.func.value.id in shape and s_.value.func.attr in ("append", "insert") and s_.value.args:
                sh = elt_shape(s_.value.args[-1])
                cur = shape[s_.value.func.value.id]
                shape[s_.value.func.value.id] = sh if cur in ("empty", sh) else "mixed"
            elif isinstance(s_, (ast.For, ast.While)):
                visit(s_.body)
                visit(s_.orelse)
            elif isinstance(s_, ast.If):
                for c in [x for x in ast.walk(s_.test) if isinstance(x, ast.Compare) and len(x.ops) == 1 and isinstance(x.ops[0], (ast.In, ast.NotIn)) and isinstance(x.comparators[0], ast.Name) and x.comparators[0].id in shape]:
                    tests.append((c, shape.get(c.comparators[0].id), elt_shape(c.left)))
                visit(s_.body)
                visit(s_.orelse)
            elif isinstance(s_, (ast.With, ast.Try)):
                visit(s_.body)
                for h in getattr(s_, "handlers", []):
                    visit(h.body)
                visit(getattr(s_, "orelse", []))
                visit(getattr(s_, "finalbody", []))

    visit(fn.body)
    if not tests:
        ctx.ob("R9", st, "no 'unless listed already' membership test in the enumeration (nothing is added conditionally)", True, key="_xhj_get_history_files|no-membership-test")
        return
    for c, have, want in tests:
        ok = have in (want, "empty") and have not in ("mixed", "?")
        ctx.ob("R9", st, f"`{short(c, 50)}` looks for a {want} among {have}s", ok, key="_xhj_get_history_files|membership-test-mixes-shapes", where=loc(c), detail=None if ok else f"the list holds {have} elements at this point, the needle is a {want}: the test cannot be true")


def _sqlite_acts_on_own_file(ctx):
    """R11: sibling agreement - every backend call of the session object names the session's database."""
    from ..engine.loader import class_methods

    SQ = "xonsh/history/sqlite.py"
    sq = ctx.repo.module(SQ)
    ms = class_methods(sq.cls("SqliteHistory"))
    # callables of the module that take a `filename`: functions, and classes through their __init__
    takes = {}
    for q, f in sq.functions():
        a = f.args
        names = [x.arg for x in a.posonlyargs + a.args + a.kwonlyargs]
        if "filename" not in names:
            continue
        if "." not in q:
            takes[q] = (f, names.index("filename") if "filename" in [x.arg for x in a.posonlyargs + a.args] else None)
        elif q.endswith(".__init__") and q.count(".") == 1 and q.split(".")[0] != "SqliteHistory":
            pos = [x.arg for x in a.posonlyargs + a.args]
            takes[q.split(".")[0]] = (f, pos.index("filename") - 1 if "filename" in pos else None)
    if len(takes) < 5:
        raise AnalysisError(f"{SQ}: fewer than 5 callables with a `filename` parameter ({sorted(takes)})")
    n = 0
    for mname, m in sorted(ms.items()):
        mdefs = df.all_defs(m)
        for c in calls_in(m, local=False):
            nm = call_name(c)
            if nm not in takes:
                continue
            _, pos = takes[nm]
            arg = kwarg(c, "filename")
            if arg is None and pos is not None and pos < len(c.args) and not any(isinstance(a_, ast.Starred) for a_ in c.args):
                arg = c.args[pos]
            own = False
            if arg is not None:
                e = df.resolve_copy(mdefs, arg)
                own = unparse(e) == "self.filename"
                if not own and mname == "__init__" and isinstance(e, ast.Name):
                    # inside the constructor: the very local that is stored as self.filename
                    own = any(isinstance(a_, ast.Assign) and any(unparse(t) == "self.filename" for t in a_.targets) and unparse(a_.value) == e.id for a_ in walk_local(m))
            n += 1
            ctx.ob("R11", f"{SQ}:SqliteHistory.{mname}", f"`{short(c, 60)}` acts on the session's own database (filename=self.filename)", own, key=f"SqliteHistory.{mname}|{nm}|acts-on-default-database", where=loc(c), detail=None if own else ("no filename is handed over: the callee falls back to the default database" if arg is None else f"filename is `{short(arg, 40)}`"))
    if n == 0:
        raise AnalysisError(f"{SQ}:SqliteHistory: no backend call found")


def _boot_clock(ctx):
    UP = "xonsh/xoreutils/uptime.py"
    um = ctx.repo.module(UP)
    fn = um.func("_boot_time_linux")
    st = f"{UP}:_boot_time_linux"
    defs = df.all_defs(fn)
    # the clock names that can reach clock_gettime: attributes time.CLOCK_*, and names fetched with getattr(time, <name>)
    # where <name> is a constant or ranges over a tuple / list of constants
    names = set()
    calls = [c for c in calls_in(fn) if (call_name(c) or "").endswith("clock_gettime")]
    if not calls:
        ctx.ob("R10", st, "no clock_gettime based boot time on this path (the /proc/stat btime is wall-clock boot time)", True, key="boot-clock|none")
        return
    for x in walk_local(fn):
        if isinstance(x, ast.Attribute) and x.attr.startswith("CLOCK_"):
            names.add(x.attr)
        if isinstance(x, ast.Call) and call_name(x) == "getattr" and len(x.args) >= 2:
            a1 = x.args[1]
            if isinstance(a1, ast.Constant) and isinstance(a1.value, str):
                names.add(a1.value)
            elif isinstance(a1, ast.Name):
                src = element_source(fn, a1.id, defs)
                vals = [e.value for e in getattr(src, "elts", []) if isinstance(e, ast.Constant)] if src is not None else []
                for d in defs.get(a1.id, []):
                    if d.value is not None and isinstance(d.value, ast.Constant) and isinstance(d.value.value, str):
                        vals.append(d.value.value)
                if not vals:
                    raise AnalysisError(f"{st}: cannot see which clock names `{a1.id}` ranges over")
                names |= set(vals)
    clocks = sorted(n_ for n_ in names if n_.startswith("CLOCK_"))
    if not clocks:
        raise AnalysisError(f"{st}: clock_gettime is called but no clock name was found")
    ok = clocks == ["CLOCK_BOOTTIME"]
    ctx.ob("R10", st, f"the clock(s) the boot time is computed from: {clocks} - CLOCK_BOOTTIME only", ok, key="boot-clock|not-boottime", where=loc(calls[0]), detail=None if ok else "a clock that stops during suspend (or is not counted from boot) puts the boot time after the start of sessions that are still alive")

META = {
    "technique": "static analysis: def-use provenance of the removal set, CFG guard dominance, slice-shape rule over history/json.py",
    "text": "Decides, for the JSON backend, the clauses of the GC contract that are shapes of the code and hold for "
    "every file collection: os.remove is applied only to elements of the selector's result; the selector comes "
    "from the unit table and is fed exactly files(only_unlocked=True); inside files() a parsed file is appended "
    "only past the lock filter; every per-unit selector can return only files[:k], files or [] of the list that "
    "files() sorted oldest-first (so removal is oldest-first by construction); no `x[:-n]` is evaluated without "
    "n > 0 being established (the -0 slice trap the sampled tests miss); removal is control-dependent on "
    "`force or size_over < hsize`; the age key of an unclosed session is not read from file metadata that the "
    "enumeration itself rewrites (stale-lock clearing). The numeric cut k and the SQLite query are not decided.",
    "note": "Decides the listed structural clauses, not the behaviour. Trusted: list.sort on tuples orders by the "
    "first element; the first tuple element is the closing timestamp (read, not checked).",
    "more": "Also decided: a session's file is marked unlocked only under the flusher's at-exit mode (or by the reboot repair under its boot test), and only session-end code asks for that mode. The limit text is matched in full and its unit resolved by one exact table lookup (`1,000 files` must not become 1 command, `MiB` not minutes). Every whole-file rewrite of the live session's own file carries the lock metadata over (`history clear` must not turn the live file into the oldest unlocked one). The 'unless listed already' membership test of the enumeration looks for a path among paths, not among (path, mtime) pairs.",
}

META["more"] += " The Linux boot time is computed from a clock that keeps counting during suspend. Every backend call of SqliteHistory names the session's own database, the GC thread included (defect repaired: the GC trimmed the default database)."
