"""Whole-tree behaviour-preserving transformations of the analysed tree (thorough tier): the property's verdict must
be the same on each of them.  Reported in the evidence only; never changes the exit code of a check."""

from __future__ import annotations

import importlib.util
import os
import shutil
import subprocess
import sys
import tempfile

VERIF = os.path.dirname(os.path.dirname(os.path.dirname(os.path.abspath(__file__))))


def _load(name):
    spec = importlib.util.spec_from_file_location(name, os.path.join(VERIF, "tools", name + ".py"))
    mod = importlib.util.module_from_spec(spec)
    spec.loader.exec_module(mod)
    return mod


def _verdict(prop, root, base):
    from .run import _check

    rc, out, keys = _check(prop, root, base, "quick")
    return rc, keys


def metamorphic(prop, repo_root):
    """{probe: 'same verdict' | description of the difference}"""
    base = tempfile.mkdtemp(prefix="xv-probe-", dir="/dev/shm" if os.path.isdir("/dev/shm") else None)
    out = {}
    try:
        rc0, keys0 = _verdict(prop, repo_root, base)
        probes = (
            ("locals renamed (suffix)", "alpha_rename", ["_r"]),
            ("locals renamed (opaque)", "alpha_rename", ["OPAQUE"]),
            ("if/else arms swapped", "arm_swap", []),
            ("temporaries introduced (hoisted argument, returned value, if test)", "temp_intro", ["all"]),
            ("else after return removed", "restructure", ["unelse"]),
            ("trailing if turned into a guard clause", "restructure", ["guard"]),
            ("if/else assignments turned into conditional expressions", "restructure", ["toexp"]),
            ("conditional expressions turned into if/else statements", "restructure", ["tostmt"]),
        )
        for label, tool, extra in probes:
            root = tempfile.mkdtemp(prefix="t-", dir=base)
            env = dict(os.environ, XV_REPO=repo_root)
            p = subprocess.run([sys.executable, "-B", os.path.join(VERIF, "tools", tool + ".py"), root] + extra, capture_output=True, text=True, env=env, timeout=600)
            if p.returncode != 0:
                out[label] = "probe tree could not be built: " + (p.stderr.strip().splitlines() or ["?"])[-1][:200]
                continue
            rc, keys = _verdict(prop, root, base)
            # keys may contain local names; compare rule sets and the exit code
            same = rc == rc0 and {r for r, _ in keys} == {r for r, _ in keys0} and len(keys) == len(keys0)
            out[label] = "same verdict" if same else f"DIFFERS: rc {rc0} -> {rc}, violated rules {sorted({r for r, _ in keys0})} -> {sorted({r for r, _ in keys})}"
            shutil.rmtree(root, ignore_errors=True)
    finally:
        shutil.rmtree(base, ignore_errors=True)
    return out
