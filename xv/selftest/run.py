"""Self-test of the rules: every mutant (one realistic edit to a scratch copy of the
working tree) must make its property's check exit 1 and name the expected rule; every
benign twin (behaviour-preserving refactor) must leave the verdict at exit 0.

Scratch copies are symlink farms under /dev/shm (or $TMPDIR) with only the edited
file materialised; each is removed as soon as its check has run.
"""

from __future__ import annotations

import concurrent.futures as cf
import importlib
import os
import shutil
import subprocess
import sys
import tempfile
import time

VERIF = os.path.dirname(os.path.dirname(os.path.dirname(os.path.abspath(__file__))))
REPO = os.environ.get("XV_REPO") or "/repo"


def make_scratch(base, edits):
    """edits: {relpath: new_text}"""
    root = tempfile.mkdtemp(prefix="m-", dir=base)
    for entry in os.listdir(REPO):
        if entry in (".git", "xonsh", "tests", "docs", "__pycache__", ".pytest_cache"):
            continue
        os.symlink(os.path.join(REPO, entry), os.path.join(root, entry))
    for dp, dns, fns in os.walk(os.path.join(REPO, "xonsh")):
        dns[:] = [d for d in dns if d != "__pycache__"]
        rel = os.path.relpath(dp, REPO)
        os.makedirs(os.path.join(root, rel), exist_ok=True)
        for fn in fns:
            r = os.path.join(rel, fn)
            if r in edits:
                continue
            os.symlink(os.path.join(dp, fn), os.path.join(root, r))
    for r, txt in edits.items():
        os.makedirs(os.path.dirname(os.path.join(root, r)), exist_ok=True)
        with open(os.path.join(root, r), "w") as f:
            f.write(txt)
    return root


def apply_edit(m):
    """Returns {rel: text} or None if the anchor text is not present (not applicable)."""
    if m.get("patch"):
        return apply_patch(m)
    edits = {}
    for rel, old, new in m["edits"]:
        path = os.path.join(REPO, rel)
        src = edits.get(rel)
        if src is None:
            with open(path) as f:
                src = f.read()
        cnt = src.count(old)
        if cnt == 0:
            return None
        if cnt > 1 and not m.get("all"):
            # ambiguous anchors are a catalogue bug
            raise RuntimeError(f"mutant {m['id']}: anchor occurs {cnt} times in {rel}")
        src = src.replace(old, new)
        try:
            compile(src, rel, "exec")
        except SyntaxError as e:
            raise RuntimeError(f"mutant {m['id']}: edited {rel} does not compile: {e}")
        edits[rel] = src
    return edits


def apply_patch(m):
    """A stored unified diff (seeded change): applied with `git apply` to copies of the files
    it names; None if it no longer applies to the current tree."""
    with open(m["patch"]) as f:
        diff = f.read()
    rels = [l[6:].split("\t")[0].strip() for l in diff.splitlines() if l.startswith("+++ b/")]
    tmp = tempfile.mkdtemp(prefix="p-", dir="/dev/shm" if os.path.isdir("/dev/shm") else None)
    try:
        for rel in rels:
            src = os.path.join(REPO, rel)
            if not os.path.isfile(src):
                return None
            os.makedirs(os.path.dirname(os.path.join(tmp, rel)), exist_ok=True)
            shutil.copy(src, os.path.join(tmp, rel))
        genv = {**os.environ, "GIT_DIR": "/nonexistent", "GIT_CEILING_DIRECTORIES": "/"}
        p = subprocess.run(["git", "apply", "--whitespace=nowarn", os.path.abspath(m["patch"])], cwd=tmp, capture_output=True, text=True, env=genv)
        if p.returncode != 0:
            # the tree moved on since the patch was written (fix: commits): apply it to the files of the commit it
            # was written against and merge the result into the current files (three-way, no conflicts allowed)
            base_commit = m.get("base") or PATCH_BASE
            btmp = tempfile.mkdtemp(prefix="b-", dir=tmp)
            try:
                for rel in rels:
                    q = subprocess.run(["git", "-C", REPO, "show", f"{base_commit}:{rel}"], capture_output=True, text=True)
                    if q.returncode != 0:
                        return None
                    for sub in ("base", "theirs"):
                        os.makedirs(os.path.dirname(os.path.join(btmp, sub, rel)), exist_ok=True)
                        with open(os.path.join(btmp, sub, rel), "w") as f:
                            f.write(q.stdout)
                p2 = subprocess.run(["git", "apply", "--whitespace=nowarn", os.path.abspath(m["patch"])], cwd=os.path.join(btmp, "theirs"), capture_output=True, text=True, env=genv)
                if p2.returncode != 0:
                    return None
                for rel in rels:
                    p3 = subprocess.run(["git", "merge-file", "-p", os.path.join(tmp, rel), os.path.join(btmp, "base", rel), os.path.join(btmp, "theirs", rel)], capture_output=True, text=True, env=genv)
                    if p3.returncode != 0 and not m.get("benign"):
                        # a breaking change whose region was touched by a later fix: take the change's version of
                        # the conflicting region (it may undo the fix there - it is meant to break things)
                        p3 = subprocess.run(["git", "merge-file", "-p", "--theirs", os.path.join(tmp, rel), os.path.join(btmp, "base", rel), os.path.join(btmp, "theirs", rel)], capture_output=True, text=True, env=genv)
                    if p3.returncode != 0:
                        return None  # conflict: the patch does not carry over to the current tree
                    with open(os.path.join(tmp, rel), "w") as f:
                        f.write(p3.stdout)
            finally:
                shutil.rmtree(btmp, ignore_errors=True)
        out = {}
        for rel in rels:
            with open(os.path.join(tmp, rel)) as f:
                out[rel] = f.read()
            compile(out[rel], rel, "exec")
        return out
    finally:
        shutil.rmtree(tmp, ignore_errors=True)


def _check(prop, root, base, tier="quick"):
    """Run one check against ``root``; returns (rc, output, {(rule, key)})."""
    import json

    evd = tempfile.mkdtemp(prefix="ev-", dir=base)
    try:
        p = subprocess.run(
            [sys.executable, "-B", "-m", "xv", "check", prop, "--repo", root, "--evidence-dir", evd, "--tier", tier],
            cwd=VERIF,
            capture_output=True,
            text=True,
            timeout=900,
        )
        keys = set()
        try:
            with open(os.path.join(evd, f"{prop}.json")) as f:
                ev = json.load(f)
            for v in ev["coverage"].get("violations_found", []):
                keys.add((v["rule"], v.get("key")))
        except (OSError, ValueError, KeyError):
            pass
    finally:
        shutil.rmtree(evd, ignore_errors=True)
    return p.returncode, p.stdout + p.stderr, keys


_BASELINE = {}
PATCH_BASE = "f42ab3b"  # the commit the seeded changes and the refactoring corpus were written against
ALL_PROPS = [f"C{i:02d}" for i in range(1, 21)]


def baseline(prop, base, tier="quick"):
    k = (prop, tier)
    if k not in _BASELINE:
        _BASELINE[k] = _check(prop, REPO, base, tier)
    return _BASELINE[k]


def run_one(m, base):
    try:
        edits = apply_edit(m)
    except RuntimeError as e:
        return m, "catalogue-error", str(e)
    if edits is None:
        return m, "n/a", "anchor text not in current tree"
    tier = m.get("tier", "quick")
    brc, bout, bkeys = baseline(m["prop"], base, tier)
    if brc == 2:
        return m, "BASE-BROKEN", bout[-800:]
    root = make_scratch(base, edits)
    try:
        rc, out, keys = _check(m["prop"], root, base, tier)
    finally:
        shutil.rmtree(root, ignore_errors=True)
    new = keys - bkeys
    if m.get("benign"):
        ok = rc != 2 and not new
        info = "" if ok else f"rc={rc} new={sorted(new)}\n" + out[-1200:]
        # a behaviour-preserving edit must leave EVERY property's verdict alone, not only its own
        if ok and not os.environ.get("XV_TWINS_OWN_ONLY"):
            root = make_scratch(base, edits)
            try:
                for other in ALL_PROPS:
                    if other == m["prop"]:
                        continue
                    obrc, _, obkeys = baseline(other, base, "quick")
                    orc, oout, okeys = _check(other, root, base, "quick")
                    if orc == 2 or (okeys - obkeys):
                        ok = False
                        info += f"[{other}] rc={orc} new={sorted(okeys - obkeys, key=str)}\n" + "\n".join(l for l in oout.splitlines() if "ANALYSIS-ERROR" in l or l.lstrip().startswith("VIOLATED"))[:800] + "\n"
            finally:
                shutil.rmtree(root, ignore_errors=True)
        return m, "ok" if ok else "FALSE-ALARM", info
    want = f"{m['prop']}.{m['rule']}" if m.get("rule") else None
    if rc == 1 and new and (want is None or any(r == want for r, _ in new)):
        return m, "ok", "; ".join(f"{r} {k}" for r, k in sorted(new, key=str))[:300]
    if rc == 2 and m.get("accept_error"):
        return m, "ok", "analysis-error (accepted: fail closed)"
    return m, "MISSED" if not new and rc != 2 else f"WRONG(rc={rc})", f"new={sorted(new, key=str)}\n" + out[-1500:]


def load_catalogue(props):
    muts = []
    cat_dir = os.path.join(os.path.dirname(__file__), "mutants")
    for fn in sorted(os.listdir(cat_dir)):
        if not fn.endswith(".py") or fn.startswith("_"):
            continue
        mod = importlib.import_module(f"xv.selftest.mutants.{fn[:-3]}")
        for m in mod.MUTANTS:
            m.setdefault("prop", fn[:-3].upper())
            if not props or m["prop"] in props:
                muts.append(m)
    # the seeded changes of independent authors are replayed as mutants too
    import json

    sd = os.path.join(VERIF, "seeded")
    for d in sorted(os.listdir(sd)) if os.path.isdir(sd) else []:
        mp = os.path.join(sd, d, "meta.json")
        if not os.path.isfile(mp):
            continue
        with open(mp) as f:
            meta = json.load(f)
        prop = (meta.get("breaks_property") or d[:3]).upper()
        cb = str(meta.get("caught_by") or "")
        rule = cb.split()[0].split(".")[1] if cb.startswith(prop + ".") else None
        if cb.startswith("missed"):
            continue
        if not props or prop in props:
            muts.append(dict(id=f"seed:{d}", prop=prop, rule=rule, desc=(meta.get("summary") or "")[:100], patch=os.path.join(sd, d, "patch.diff"), base=(meta.get("confirmed") or {}).get("base_commit")))
    # behaviour-preserving refactorings written by independent authors: every one must leave all verdicts alone
    rd = os.path.join(VERIF, "refactors")
    for d in sorted(os.listdir(rd)) if os.path.isdir(rd) else []:
        prop = d.upper()
        if props and prop not in props:
            continue
        bases = {}
        try:
            with open(os.path.join(rd, d, "meta.json")) as f:
                for e in json.load(f).get("refactorings", []):
                    if e.get("base_commit"):
                        bases[e.get("file")] = e["base_commit"]
        except (OSError, ValueError):
            pass
        for fn in sorted(os.listdir(os.path.join(rd, d))):
            if fn.endswith(".diff"):
                muts.append(dict(id=f"refactor:{d}/{fn[:-5]}", prop=prop, benign=True, desc="behaviour-preserving variant written while building a rule" if fn.startswith("hand-") else "independent behaviour-preserving refactoring", patch=os.path.join(rd, d, fn), base=bases.get(fn)))
    return muts


def summary(prop, jobs=16):
    """Armedness summary for one property (used by the thorough tier; never changes a verdict)."""
    muts = load_catalogue([prop.upper()])
    if not muts:
        return {"variants": 0}
    base = tempfile.mkdtemp(prefix="xv-selftest-", dir="/dev/shm" if os.path.isdir("/dev/shm") else None)
    try:
        need = {(m["prop"], m.get("tier", "quick")) for m in muts}
        if any(m.get("benign") for m in muts) and not os.environ.get("XV_TWINS_OWN_ONLY"):
            need |= {(p_, "quick") for p_ in ALL_PROPS}
        with cf.ThreadPoolExecutor(max_workers=jobs) as ex0:
            list(ex0.map(lambda pr: baseline(pr[0], base, pr[1]), sorted(need)))
        with cf.ThreadPoolExecutor(max_workers=jobs) as ex:
            res = list(ex.map(lambda m: run_one(m, base), muts))
    finally:
        shutil.rmtree(base, ignore_errors=True)
        _BASELINE.clear()
    out = {"mutants_applicable": 0, "mutants_caught": 0, "benign_applicable": 0, "benign_silent": 0, "problems": [], "caught": []}
    for m, status, info in res:
        if status == "n/a":
            continue
        if m.get("benign"):
            out["benign_applicable"] += 1
            out["benign_silent"] += status == "ok"
        else:
            out["mutants_applicable"] += 1
            out["mutants_caught"] += status == "ok"
            if status == "ok":
                out["caught"].append(f"{m['id']}: {m.get('desc', '')}")
        if status != "ok":
            out["problems"].append(f"{m['id']}: {status}")
    return out


def main(props, jobs=16, verbose=False):
    props = [p.upper() for p in props]
    muts = load_catalogue(props)
    base = tempfile.mkdtemp(prefix="xv-selftest-", dir="/dev/shm" if os.path.isdir("/dev/shm") else None)
    t0 = time.time()
    res = []
    try:
        need = {(m["prop"], m.get("tier", "quick")) for m in muts}
        if any(m.get("benign") for m in muts) and not os.environ.get("XV_TWINS_OWN_ONLY"):
            need |= {(p_, "quick") for p_ in ALL_PROPS}
        with cf.ThreadPoolExecutor(max_workers=jobs) as ex0:
            list(ex0.map(lambda pr: baseline(pr[0], base, pr[1]), sorted(need)))
        with cf.ThreadPoolExecutor(max_workers=jobs) as ex:
            for r in ex.map(lambda m: run_one(m, base), muts):
                res.append(r)
    finally:
        shutil.rmtree(base, ignore_errors=True)
    bad = 0
    by = {}
    for m, status, info in res:
        by.setdefault(m["prop"], []).append((m, status))
        good = status in ("ok", "n/a")
        if not good:
            bad += 1
        if verbose or not good:
            kind = "benign" if m.get("benign") else "mutant"
            print(f"[{status:>11}] {m['prop']} {kind} {m['id']}: {m.get('desc', '')}")
            if not good or verbose:
                for l in info.splitlines()[-12:]:
                    print("      " + l)
    for p, items in sorted(by.items()):
        n_m = sum(1 for m, s in items if not m.get("benign") and s != "n/a")
        c_m = sum(1 for m, s in items if not m.get("benign") and s == "ok")
        n_b = sum(1 for m, s in items if m.get("benign") and s != "n/a")
        c_b = sum(1 for m, s in items if m.get("benign") and s == "ok")
        print(f"{p}: mutants caught {c_m}/{n_m}; benign twins silent {c_b}/{n_b}")
    print(f"selftest: {len(res)} variants, {bad} problem(s), {time.time() - t0:.1f}s")
    return 1 if bad else 0
