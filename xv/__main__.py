"""CLI:  python -m xv check C13 [--tier quick|thorough] [--repo PATH]

exit 0  every obligation discharged (or listed as a known finding)
exit 1  violation(s): one line ``VIOLATION property=<id> replay=<path>`` each
exit 2  ANALYSIS-ERROR: the analysis could not give a verdict (missing anchor,
        unrecognised shape, helper failure) — fail closed, never a pass
"""

import argparse
import importlib
import os
import sys
import traceback


def main(argv=None):
    ap = argparse.ArgumentParser(prog="xv")
    sub = ap.add_subparsers(dest="cmd", required=True)
    c = sub.add_parser("check")
    c.add_argument("prop")
    c.add_argument("--tier", default=os.environ.get("VERIF_TIER") or "quick")
    c.add_argument("--repo", default=None)
    c.add_argument("--evidence-dir", default=None)
    s = sub.add_parser("selftest")
    s.add_argument("props", nargs="*")
    s.add_argument("-j", type=int, default=16)
    s.add_argument("-v", action="store_true")
    a = sub.add_parser("all")
    a.add_argument("--tier", default="quick")
    a.add_argument("--repo", default=None)
    args = ap.parse_args(argv)

    if args.cmd == "selftest":
        from .selftest.run import main as st_main

        return st_main(args.props, jobs=args.j, verbose=args.v)
    if args.cmd == "all":
        rc = 0
        for i in range(1, 21):
            pid = f"C{i:02d}"
            r = run_check(pid, args.tier, args.repo, None)
            rc = max(rc, r)
        return rc
    return run_check(args.prop, args.tier, args.repo, args.evidence_dir)


def run_check(prop, tier, repo_root, evidence_dir):
    from .engine.loader import AnalysisError, Repo
    from .engine.report import Ctx

    prop = prop.upper()
    tier = tier if tier in ("quick", "thorough") else "quick"
    try:
        mod = importlib.import_module(f"xv.rules.{prop.lower()}")
    except ModuleNotFoundError:
        print(f"ANALYSIS-ERROR property={prop} no rules module")
        return 2
    try:
        ctx = Ctx(prop, tier=tier, repo=Repo(repo_root), evidence_dir=evidence_dir)
        mod.check(ctx)
        if tier == "thorough" and not os.environ.get("XV_NO_SELFTEST"):
            # rule-armedness self-test against mutants of the *current* tree; reported in the
            # evidence only, the exit code reflects the analysed tree alone
            try:
                from .selftest.run import summary

                os.environ["XV_NO_SELFTEST"] = "1"
                ctx.extra["selftest"] = summary(prop)
                from .selftest.probes import metamorphic

                ctx.extra["verdict_under_behaviour_preserving_transformations"] = metamorphic(prop, ctx.repo.root)
            except Exception as e:  # never let the self-test change a verdict
                ctx.extra["selftest"] = {"error": f"{type(e).__name__}: {e}"}
            finally:
                os.environ.pop("XV_NO_SELFTEST", None)
        return ctx.finish()
    except AnalysisError as e:
        print(f"ANALYSIS-ERROR property={prop} {e}")
        return 2
    except Exception as e:  # a crash of the checker is not a verdict
        traceback.print_exc()
        print(f"ANALYSIS-ERROR property={prop} checker crashed: {type(e).__name__}: {e}")
        return 2


class _QuietPipe:
    """stdout that survives a reader who went away (`./check C01 | head -1`): the verdict is the exit code and the
    evidence file, neither may depend on whether somebody reads the report to the end"""

    def __init__(self, f):
        self._f, self._dead = f, False

    def write(self, s):
        if self._dead:
            return len(s)
        try:
            return self._f.write(s)
        except BrokenPipeError:
            self._dead = True
            return len(s)

    def flush(self):
        if not self._dead:
            try:
                self._f.flush()
            except BrokenPipeError:
                self._dead = True

    def __getattr__(self, a):
        return getattr(self._f, a)


if __name__ == "__main__":
    sys.stdout = _QuietPipe(sys.stdout)
    rc = main()
    try:
        sys.stdout.flush()
    finally:
        if getattr(sys.stdout, "_dead", False):
            # avoid the interpreter's own flush-at-exit complaint
            try:
                os.dup2(os.open(os.devnull, os.O_WRONLY), 1)
            except OSError:
                pass
    sys.exit(rc)
