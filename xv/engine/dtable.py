"""Decision-table extraction for loop-free decision functions.

``paths(fn)`` enumerates every acyclic path through the function body and returns,
per path, the conjunction of branch literals (with local single assignments
substituted forward) and the outcome (return expression / raised expression /
fall-through).  Nothing is executed; guards are kept as syntax and interpreted by the
rule through its own atom recognisers.  Unsupported statements raise AnalysisError
(never a guess).
"""

from __future__ import annotations

import ast
import copy

from .loader import AnalysisError, unparse, FuncTypes


class Path:
    __slots__ = ("conds", "outcome", "value", "env", "effects", "node")

    def __init__(self, conds, outcome, value, env, effects, node=None):
        self.conds = conds  # [(expr_ast_substituted, polarity)]
        self.outcome = outcome  # 'return' | 'raise' | 'fall'
        self.value = value  # substituted expr or None
        self.env = env
        self.effects = effects  # substituted call statements executed on the path
        self.node = node

    def cond_texts(self):
        return [("" if p else "not ") + unparse(e) for e, p in self.conds]

    def __repr__(self):
        return f"Path([{'; '.join(self.cond_texts())}] -> {self.outcome} {unparse(self.value) if self.value is not None else ''})"


def clone(node):
    """Structural copy of an AST (fields and locations only; engine back-links are
    deliberately not copied — deepcopy would drag the whole module along)."""
    if isinstance(node, list):
        return [clone(x) for x in node]
    if not isinstance(node, ast.AST):
        return node
    new = type(node)()
    for f in node._fields:
        if hasattr(node, f):
            setattr(new, f, clone(getattr(node, f)))
    for a in ("lineno", "col_offset", "end_lineno", "end_col_offset"):
        if hasattr(node, a):
            setattr(new, a, getattr(node, a))
    return new


class _Subst(ast.NodeTransformer):
    def __init__(self, env):
        self.env = env

    def visit_Name(self, node):
        if isinstance(node.ctx, ast.Load) and node.id in self.env:
            v = self.env[node.id]
            if v is None:
                return node
            return clone(v)
        return node

    def visit_Attribute(self, node):
        # attribute state is tracked only when the enumerator was asked to (keys contain a dot)
        if isinstance(node.ctx, ast.Load):
            try:
                key = ast.unparse(node)
            except Exception:  # pragma: no cover
                key = None
            if key in self.env and self.env[key] is not None:
                return clone(self.env[key])
        self.generic_visit(node)
        return node

    def visit_Lambda(self, node):
        return node


def trivial(e, pol=True):
    """Truth of a literal made of constants only (after substitution), else None: `None is None`,
    `False`, `not True`, `1 == 2` ...  Used to prune paths whose condition is decided by an earlier
    assignment on the same path."""
    if isinstance(e, ast.Constant):
        return bool(e.value) == pol
    if isinstance(e, ast.UnaryOp) and isinstance(e.op, ast.Not):
        return trivial(e.operand, not pol)
    if isinstance(e, ast.Compare) and len(e.ops) == 1 and isinstance(e.left, ast.Constant) and isinstance(e.comparators[0], ast.Constant):
        a, b = e.left.value, e.comparators[0].value
        op = e.ops[0]
        r = None
        if isinstance(op, (ast.Is, ast.Eq)):
            r = (a is b) if isinstance(op, ast.Is) and (a is None or b is None or isinstance(a, bool) or isinstance(b, bool)) else (a == b)
        elif isinstance(op, (ast.IsNot, ast.NotEq)):
            r = not ((a is b) if isinstance(op, ast.IsNot) and (a is None or b is None or isinstance(a, bool) or isinstance(b, bool)) else (a == b))
        if r is not None:
            return r == pol
    # a module-level sentinel compared with a constant: `_PIPE_ERR is None` cannot hold
    if isinstance(e, ast.Compare) and len(e.ops) == 1 and isinstance(e.ops[0], (ast.Is, ast.IsNot)):
        l, r_ = e.left, e.comparators[0]
        if isinstance(l, ast.Name) and isinstance(r_, ast.Name) and l.id == r_.id:
            return isinstance(e.ops[0], ast.Is) == pol
    return None


def feasible(path):
    """False when a condition on the path is decided the other way by constants"""
    return not any(trivial(e, pol) is False for e, pol in path.conds)


def simplified(paths_):
    """feasible paths, with the conditions that constants decide (in the taken direction) removed"""
    out = []
    for p in paths_:
        if not feasible(p):
            continue
        p.conds = [(e, pol) for e, pol in p.conds if trivial(e, pol) is not True]
        out.append(p)
    return out


def subst(expr, env):
    if expr is None:
        return None
    return ast.fix_missing_locations(_Subst(env).visit(clone(expr)))


class Havoc(ast.AST):
    """Opaque value (assignment from something the enumerator does not model)."""

    _fields = ()


def _assign(env, target, value_sub):
    if isinstance(target, ast.Name):
        env[target.id] = value_sub
    elif isinstance(target, (ast.Tuple, ast.List)):
        if isinstance(value_sub, (ast.Tuple, ast.List)) and len(value_sub.elts) == len(target.elts):
            for t, v in zip(target.elts, value_sub.elts):
                _assign(env, t, v)
        else:
            for i, t in enumerate(target.elts):
                _assign(env, t, ast.Subscript(value=value_sub, slice=ast.Constant(value=i), ctx=ast.Load()))
    else:
        # attribute / subscript stores are effects; their value is tracked under the target's text when asked to
        if env.get("<track-attrs>") is not None and isinstance(target, ast.Attribute):
            try:
                env[ast.unparse(target)] = value_sub
            except Exception:  # pragma: no cover
                pass
    if isinstance(target, ast.Name):
        pre = target.id + "."
        for k_ in [k_ for k_ in env if k_.startswith(pre)]:
            del env[k_]


def branches(test, polarity):
    """Disjunctive expansion of ``test == polarity`` into conjunctions of atomic
    literals, following short-circuit evaluation:  not (a and b)  ->  [not a] | [a, not b]."""
    if isinstance(test, ast.UnaryOp) and isinstance(test.op, ast.Not):
        return branches(test.operand, not polarity)
    if isinstance(test, ast.BoolOp):
        is_and = isinstance(test.op, ast.And)
        if is_and == polarity:
            # all operands have the polarity: cartesian product of their expansions
            acc = [[]]
            for v in test.values:
                acc = [a + b for a in acc for b in branches(v, polarity)]
            return acc
        # first operand that decides: earlier ones have the non-deciding value
        out = []
        prefix = [[]]
        for v in test.values:
            for pre in prefix:
                for b in branches(v, polarity):
                    out.append(pre + b)
            prefix = [pre + b for pre in prefix for b in branches(v, not polarity)]
        return out
    return [[normalise(test, polarity)]]


_NEG = {ast.IsNot: ast.Is, ast.NotEq: ast.Eq, ast.NotIn: ast.In}


def normalise(test, polarity):
    """Canonical literal: negative comparison operators are turned into their positive
    form with the polarity flipped (``x is not None`` true  ==  ``x is None`` false)."""
    if isinstance(test, ast.Compare) and len(test.ops) == 1 and type(test.ops[0]) in _NEG:
        new = ast.Compare(left=test.left, ops=[_NEG[type(test.ops[0])]()], comparators=test.comparators)
        ast.copy_location(new, test)
        return (ast.fix_missing_locations(new), not polarity)
    return (test, polarity)


def paths(fn, max_paths=4096, loops="error", stores=False):
    """``stores=True``: attribute/subscript stores are recorded among the effects (as ast.Assign with
    substituted target and value) and attribute values are substituted forward like locals."""
    body = fn.body if isinstance(fn, FuncTypes) else list(fn)
    out = []
    inl_stack = []
    env0 = {"<track-attrs>": ast.Constant(value=True)} if stores else {}

    def run(stmts, conds, env, effects, k):
        """k(conds, env, effects) continues after the block on fall-through."""
        if len(out) > max_paths:
            raise AnalysisError("decision table: too many paths")
        if not stmts:
            return k(conds, env, effects)
        s, rest = stmts[0], stmts[1:]
        nxt = lambda c, e, f: run(rest, c, e, f, k)
        if isinstance(s, ast.Expr):
            if isinstance(s.value, ast.Constant):
                return nxt(conds, env, effects)
            return nxt(conds, env, effects + [subst(s.value, env)])
        if isinstance(s, ast.Assign):
            v = subst(s.value, env)
            env = dict(env)
            if stores:
                for t in s.targets:
                    if isinstance(t, (ast.Attribute, ast.Subscript)):
                        st_ = ast.Assign(targets=[t], value=v, type_comment=None)
                        ast.copy_location(st_, s)
                        effects = effects + [st_]
            for t in s.targets:
                _assign(env, t, v)
            return nxt(conds, env, effects)
        if isinstance(s, ast.AnnAssign):
            env = dict(env)
            if s.value is not None:
                _assign(env, s.target, subst(s.value, env))
            return nxt(conds, env, effects)
        if isinstance(s, ast.AugAssign):
            env = dict(env)
            if isinstance(s.target, ast.Name):
                old = env.get(s.target.id, ast.Name(id=s.target.id, ctx=ast.Load()))
                env[s.target.id] = ast.BinOp(left=old, op=s.op, right=subst(s.value, env))
            return nxt(conds, env, effects)
        if isinstance(s, ast.If):
            t = subst(s.test, env)
            for conj in branches(t, True):
                run(s.body, conds + conj, env, effects, nxt)
            for conj in branches(t, False):
                run(s.orelse, conds + conj, env, effects, nxt)
            return
        if isinstance(s, ast.Return):
            out.append(Path(conds, "return", subst(s.value, env), env, effects, s))
            return
        if isinstance(s, ast.Raise) and isinstance(s.exc, ast.Name) and s.exc.id == "__xv_return__":
            # end of an expanded helper (engine/inline.py): continue after its block
            if not inl_stack:
                raise AnalysisError("decision table: inline return outside an inline block")
            return inl_stack[-1](conds, env, effects)
        if isinstance(s, ast.Raise):
            out.append(Path(conds, "raise", subst(s.exc, env), env, effects, s))
            return
        if isinstance(s, (ast.Continue, ast.Break)):
            out.append(Path(conds, "continue" if isinstance(s, ast.Continue) else "break", None, env, effects, s))
            return
        if isinstance(s, ast.Delete):
            env = dict(env)
            for t in s.targets:
                if isinstance(t, ast.Name):
                    env.pop(t.id, None)
            return nxt(conds, env, effects + ([s] if stores else []))
        if isinstance(s, (ast.Pass, ast.Global, ast.Nonlocal, ast.Import, ast.ImportFrom)):
            return nxt(conds, env, effects)
        if isinstance(s, ast.Assert):
            return nxt(conds + [(subst(s.test, env), True)], env, effects)
        if isinstance(s, ast.Try):
            # body paths; a `finally` that neither returns nor raises keeps the pending outcome
            fin = s.finalbody

            def after_body(c, e, f):
                return run(s.orelse + fin, c, e, f, nxt)

            before = len(out)
            run(s.body, conds, env, effects, after_body)
            # returns/raises recorded inside the body still pass through finally: model its effects
            if fin:
                for p in out[before:]:
                    pass
            # handlers: entered with the environment at try entry (conservative)
            for h in s.handlers:
                hc = conds + [(ast.Name(id=f"<exception:{unparse(h.type) if h.type else 'any'}>", ctx=ast.Load()), True)]
                run(h.body + fin, hc, env, effects, nxt)
            return
        if isinstance(s, ast.With) and len(s.items) == 1 and isinstance(s.items[0].context_expr, ast.Name) and s.items[0].context_expr.id == "__xv_inline__":

            def after(c, e, f):
                saved = inl_stack.pop()  # the block is left
                try:
                    return run(rest, c, e, f, k)
                finally:
                    inl_stack.append(saved)

            inl_stack.append(after)
            try:
                return run(s.body, conds, env, effects, after)
            finally:
                inl_stack.pop()
        if isinstance(s, (ast.With, ast.AsyncWith)):
            env = dict(env)
            for it in s.items:
                if it.optional_vars is not None:
                    _assign(env, it.optional_vars, subst(it.context_expr, env))
            return run(s.body + rest, conds, env, effects, k)
        if isinstance(s, FuncTypes + (ast.ClassDef,)):
            return nxt(conds, env, effects)
        if isinstance(s, (ast.For, ast.While, ast.AsyncFor)) and loops == "skip":
            # the loop is treated as an opaque effect that havocs the names it assigns
            env = dict(env)
            for n in ast.walk(s):
                if isinstance(n, ast.Name) and isinstance(n.ctx, ast.Store):
                    env[n.id] = None
            return nxt(conds, env, effects + [ast.Name(id=f"<loop@{s.lineno}>", ctx=ast.Load())])
        raise AnalysisError(
            f"decision table: unsupported statement {type(s).__name__} at line {getattr(s, 'lineno', '?')}"
        )

    def fall(c, e, f):
        out.append(Path(c, "fall", None, e, f))

    run(body, [], env0, [], fall)
    return out


def literals(path):
    """Flatten the path condition into atomic literals (and/or/not split where implied)."""
    from .cfg import implied_facts

    out = []
    for e, pol in path.conds:
        out += implied_facts(e, pol)
    return out
