"""Source loader: parse files of the analysed tree once, index them, hand out anchors.

Nothing here imports or runs code of the analysed tree.  A missing file, function,
class or module-level name raises AnchorMissing, which the CLI maps to
``ANALYSIS-ERROR`` / exit 2 (fail closed), never to a pass.
"""

from __future__ import annotations

import ast
import hashlib
import os


class AnalysisError(Exception):
    """The analysis itself cannot give a verdict (exit 2)."""


class AnchorMissing(AnalysisError):
    """A construct a rule is anchored on does not exist in the analysed tree."""


FuncTypes = (ast.FunctionDef, ast.AsyncFunctionDef)


def unparse(node) -> str:
    """Normalised text of a node (comments/formatting independent)."""
    if node is None:
        return "None"
    try:
        return ast.unparse(node)
    except Exception:  # pragma: no cover - defensive
        return ast.dump(node)


def short(node, n=110) -> str:
    s = " ".join(unparse(node).split())
    return s if len(s) <= n else s[: n - 3] + "..."


def dotted(node) -> str | None:
    """``a.b.c`` for Name/Attribute chains, None otherwise."""
    parts = []
    while isinstance(node, ast.Attribute):
        parts.append(node.attr)
        node = node.value
    if isinstance(node, ast.Name):
        parts.append(node.id)
        return ".".join(reversed(parts))
    return None


def call_name(call) -> str | None:
    """Dotted name of the callee of an ast.Call (``self.x.close``), else None."""
    if not isinstance(call, ast.Call):
        return None
    d = dotted(call.func)
    if d is not None:
        return d
    # method on a non-name receiver:  foo().bar  /  x[0].close  ->  "?.bar"
    if isinstance(call.func, ast.Attribute):
        return "?." + call.func.attr
    return None


def last_attr(call) -> str | None:
    """Final component of the callee name (``close`` for ``self.x.close()``)."""
    if not isinstance(call, ast.Call):
        return None
    f = call.func
    if isinstance(f, ast.Attribute):
        return f.attr
    if isinstance(f, ast.Name):
        return f.id
    return None


def walk_local(node, *, include_root=True):
    """ast.walk that does not descend into nested function / class / lambda bodies.

    The root itself may be a function; its body is walked.
    """
    stack = [node]
    first = True
    while stack:
        n = stack.pop()
        if not first and isinstance(n, FuncTypes + (ast.ClassDef, ast.Lambda)):
            # yield the def node itself (its name is a binding) but not its body
            yield n
            continue
        if first:
            first = False
            if include_root:
                yield n
        else:
            yield n
        stack.extend(reversed(list(ast.iter_child_nodes(n))))


def calls_in(node, *, local=True):
    it = walk_local(node) if local else ast.walk(node)
    return [n for n in it if isinstance(n, ast.Call)]


def const_value(node, default=None):
    if isinstance(node, ast.Constant):
        return node.value
    return default


def set_parents(tree):
    for parent in ast.walk(tree):
        for child in ast.iter_child_nodes(parent):
            child._xv_parent = parent  # type: ignore[attr-defined]
    tree._xv_parent = None


def parent(node):
    return getattr(node, "_xv_parent", None)


def ancestors(node):
    p = parent(node)
    while p is not None:
        yield p
        p = parent(p)


def enclosing_stmt(node):
    """The statement node that (transitively) contains ``node`` (or node itself)."""
    n = node
    while n is not None and not isinstance(n, ast.stmt):
        n = parent(n)
    return n


def enclosing_func(node):
    for a in ancestors(node):
        if isinstance(a, FuncTypes):
            return a
    return None


CANON = os.environ.get("XV_CANON", "1") != "0"  # engine/canon.py: single-use temporaries folded into their use


class Module:
    def __init__(self, repo, rel, src):
        self.repo = repo
        self.rel = rel
        self.src = src
        self.tree = ast.parse(src, filename=rel)
        if CANON:
            from .canon import fold_module

            self.folded = fold_module(self.tree)
        set_parents(self.tree)
        self.quals: dict[str, ast.AST] = {}
        self.assigns: dict[str, list[ast.AST]] = {}
        self._index(self.tree, "")
        for node in ast.walk(self.tree):
            node._xv_mod = self  # type: ignore[attr-defined]

    def _index(self, node, prefix):
        for child in ast.iter_child_nodes(node):
            if isinstance(child, FuncTypes + (ast.ClassDef,)):
                q = prefix + child.name
                # first definition wins only if not redefined; keep last (runtime semantics)
                self.quals[q] = child
                child._xv_qual = q  # type: ignore[attr-defined]
                self._index(child, q + ".")
            elif isinstance(child, (ast.If, ast.Try, ast.With, ast.For, ast.While)):
                # conditional definitions (ON_WINDOWS etc.) are still definitions
                self._index(child, prefix)
            if prefix == "" or isinstance(node, ast.ClassDef):
                tgt = None
                if isinstance(child, ast.Assign):
                    for t in child.targets:
                        if isinstance(t, ast.Name):
                            self.assigns.setdefault(prefix + t.id, []).append(child)
                elif isinstance(child, ast.AnnAssign) and isinstance(child.target, ast.Name):
                    self.assigns.setdefault(prefix + child.target.id, []).append(child)
                del tgt

    # -- anchors -------------------------------------------------------------
    def get(self, qual):
        try:
            return self.quals[qual]
        except KeyError:
            raise AnchorMissing(f"{self.rel}: no definition named {qual!r}") from None

    def func(self, qual, raw=False):
        """The function's helper-transparent view (engine/inline.py; calls to helpers of the repository
        are expanded in place, the call itself stays as a marker statement), or the source form with
        ``raw=True`` / XV_FLATTEN=0."""
        n = self.get(qual)
        if not isinstance(n, FuncTypes):
            raise AnchorMissing(f"{self.rel}: {qual!r} is not a function")
        if raw or FLATTEN_DEPTH <= 0:
            return n
        return flat_view(self.repo, n)

    def cls(self, qual):
        n = self.get(qual)
        if not isinstance(n, ast.ClassDef):
            raise AnchorMissing(f"{self.rel}: {qual!r} is not a class")
        return n

    def has(self, qual):
        return qual in self.quals

    def assign_value(self, name):
        """Value node of the (last) module/class level assignment ``name = ...``."""
        try:
            a = self.assigns[name][-1]
        except KeyError:
            raise AnchorMissing(f"{self.rel}: no assignment to {name!r}") from None
        return a.value

    def loc(self, node):
        return f"{self.rel}:{getattr(node, 'lineno', 0)}"

    def functions(self):
        for q, n in self.quals.items():
            if isinstance(n, FuncTypes):
                yield q, n


def qual_of(node):
    return getattr(node, "_xv_qual", None)


def mod_of(node) -> Module:
    return node._xv_mod


def loc(node):
    m = getattr(node, "_xv_mod", None)
    rel = m.rel if m is not None else "?"
    return f"{rel}:{getattr(node, 'lineno', 0)}"


def site(node):
    """``file:qualified-function`` of the function enclosing node (or the module)."""
    m = getattr(node, "_xv_mod", None)
    rel = m.rel if m is not None else "?"
    f = node if isinstance(node, FuncTypes + (ast.ClassDef,)) else enclosing_func(node)
    q = qual_of(f) if f is not None else "<module>"
    return f"{rel}:{q}"


class Repo:
    def __init__(self, root=None):
        root = root or os.environ.get("XV_REPO") or "/repo"
        self.root = os.path.abspath(root)
        if not os.path.isdir(os.path.join(self.root, "xonsh")):
            raise AnalysisError(f"no xonsh package under {self.root}")
        self._mods: dict[str, Module] = {}
        self.digests: dict[str, str] = {}

    def path(self, rel):
        return os.path.join(self.root, rel)

    def exists(self, rel):
        return os.path.isfile(self.path(rel))

    def read(self, rel):
        try:
            with open(self.path(rel), "rb") as f:
                data = f.read()
        except OSError as e:
            raise AnchorMissing(f"cannot read {rel}: {e}") from None
        self.digests[rel] = hashlib.sha256(data).hexdigest()[:16]
        return data.decode("utf-8")

    def module(self, rel) -> Module:
        m = self._mods.get(rel)
        if m is None:
            src = self.read(rel)
            try:
                m = Module(self, rel, src)
            except SyntaxError as e:
                raise AnalysisError(f"{rel} does not parse: {e}") from None
            self._mods[rel] = m
        return m

    def func(self, rel, qual):
        return self.module(rel).func(qual)

    def cls(self, rel, qual):
        return self.module(rel).cls(qual)

    def py_files(self, *prefixes, exclude=()):
        out = []
        for pre in prefixes:
            base = self.path(pre)
            if os.path.isfile(base):
                out.append(pre)
                continue
            for dp, dns, fns in os.walk(base):
                dns[:] = sorted(d for d in dns if d != "__pycache__")
                for fn in sorted(fns):
                    if fn.endswith(".py"):
                        rel = os.path.relpath(os.path.join(dp, fn), self.root)
                        if not any(rel.startswith(x) for x in exclude):
                            out.append(rel)
        return out

    def modules(self, *prefixes, exclude=(), containing=None):
        """Parsed modules under the prefixes.  ``containing``: only files whose text
        contains one of these substrings (cheap pre-filter before parsing)."""
        if isinstance(containing, str):
            containing = (containing,)
        for rel in self.py_files(*prefixes, exclude=exclude):
            if rel in ("xonsh/parser_table.py", "xonsh/completion_parser_table.py"):
                continue  # generated PLY tables, not source
            if containing is not None and rel not in self._mods:
                txt = self.read(rel)
                if not any(c in txt for c in containing):
                    continue
            yield self.module(rel)


# ---------------------------------------------------------------------------
# class helpers (MRO from the AST, inside one repo)
# ---------------------------------------------------------------------------


def class_methods(cls_node, raw=False):
    out = {n.name: n for n in cls_node.body if isinstance(n, FuncTypes)}
    if raw or FLATTEN_DEPTH <= 0:
        return out
    m = getattr(cls_node, "_xv_mod", None)
    if m is None:
        return out
    return {k: flat_view(m.repo, v) for k, v in out.items()}


FLATTEN_DEPTH = int(os.environ.get("XV_FLATTEN", "0"))  # helper-transparent views are opt-in per rule (inline.flatten); 2 = everywhere (probe)
_FLAT_CACHE: dict = {}
EXPANSIONS: list = []  # (function, helper) pairs, for the evidence


def flat_view(repo, fn):
    """cached helper-transparent view of a source function"""
    fn = getattr(fn, "_xv_flat_of", fn)
    key = id(fn)
    if key not in _FLAT_CACHE:
        from . import inline

        try:
            new = inline.flatten(repo, fn, depth=FLATTEN_DEPTH)
        except RecursionError:  # pragma: no cover
            new = fn
        _FLAT_CACHE[key] = (fn, new)
        for _, h in getattr(new, "_xv_expanded", []) or []:
            EXPANSIONS.append((f"{fn._xv_mod.rel}:{getattr(fn, '_xv_qual', fn.name)}", h))
    return _FLAT_CACHE[key][1]


def class_assigns(cls_node):
    out = {}
    for n in cls_node.body:
        if isinstance(n, ast.Assign):
            for t in n.targets:
                if isinstance(t, ast.Name):
                    out[t.id] = n.value
        elif isinstance(n, ast.AnnAssign) and isinstance(n.target, ast.Name) and n.value:
            out[n.target.id] = n.value
    return out
