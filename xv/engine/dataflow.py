"""Small intra-procedural def-use helpers (flow-insensitive, all definitions)."""

from __future__ import annotations

import ast

from .loader import FuncTypes, walk_local, dotted, unparse, enclosing_stmt


class Def:
    __slots__ = ("kind", "value", "index", "stmt", "target")

    def __init__(self, kind, value, stmt, index=None, target=None):
        self.kind = kind  # assign | unpack | with | for | param | except | aug | import | def | walrus | comp
        self.value = value
        self.index = index
        self.stmt = stmt
        self.target = target

    def __repr__(self):
        return f"Def({self.kind}, {unparse(self.value) if self.value is not None else None}, idx={self.index})"


def _targets(t, value, stmt, kind, out, index=None):
    if isinstance(t, ast.Name):
        out.setdefault(t.id, []).append(Def(kind if index is None else "unpack", value, stmt, index, t))
    elif isinstance(t, (ast.Tuple, ast.List)):
        for i, e in enumerate(t.elts):
            _targets(e, value, stmt, kind, out, index=i if index is None else index)
    elif isinstance(t, ast.Starred):
        _targets(t.value, value, stmt, kind, out, index)
    elif isinstance(t, (ast.Attribute, ast.Subscript)):
        d = dotted(t) if isinstance(t, ast.Attribute) else None
        if d:
            out.setdefault(d, []).append(Def(kind if index is None else "unpack", value, stmt, index, t))


def all_defs(func):
    """name -> [Def] for every binding inside ``func`` (not nested functions).

    Attribute targets are recorded under their dotted name (``self.x``)."""
    out: dict[str, list[Def]] = {}
    if isinstance(func, FuncTypes):
        a = func.args
        for p in a.posonlyargs + a.args + a.kwonlyargs + ([a.vararg] if a.vararg else []) + (
            [a.kwarg] if a.kwarg else []
        ):
            out.setdefault(p.arg, []).append(Def("param", None, func, None, p))
    for n in walk_local(func, include_root=False):
        if isinstance(n, ast.Assign):
            for t in n.targets:
                _targets(t, n.value, n, "assign", out)
        elif isinstance(n, ast.AnnAssign) and n.value is not None:
            _targets(n.target, n.value, n, "assign", out)
        elif isinstance(n, ast.AugAssign):
            _targets(n.target, n.value, n, "aug", out)
        elif isinstance(n, (ast.For, ast.AsyncFor)):
            _targets(n.target, n.iter, n, "for", out)
        elif isinstance(n, (ast.With, ast.AsyncWith)):
            for it in n.items:
                if it.optional_vars is not None:
                    _targets(it.optional_vars, it.context_expr, n, "with", out)
        elif isinstance(n, ast.ExceptHandler) and n.name:
            out.setdefault(n.name, []).append(Def("except", n.type, n))
        elif isinstance(n, ast.NamedExpr):
            _targets(n.target, n.value, enclosing_stmt(n), "walrus", out)
        elif isinstance(n, (ast.Import, ast.ImportFrom)):
            for al in n.names:
                nm = (al.asname or al.name).split(".")[0]
                out.setdefault(nm, []).append(Def("import", None, n))
        elif isinstance(n, FuncTypes + (ast.ClassDef,)) and n is not func:
            out.setdefault(n.name, []).append(Def("def", None, n))
    return out


def single_def(defs, name):
    """The unique non-param definition of ``name`` or None."""
    ds = defs.get(name, [])
    if len(ds) == 1:
        return ds[0]
    return None


def resolve_copy(defs, expr, depth=4):
    """Follow ``x = y`` chains of single-assignment locals; returns the final expr."""
    while depth > 0 and isinstance(expr, ast.Name):
        d = single_def(defs, expr.id)
        if d is None or d.kind != "assign" or d.value is None:
            break
        expr = d.value
        depth -= 1
    return expr


def leaves(defs, expr, depth=6, _seen=None):
    """Provenance: the set of leaf expressions an expression is built from, after
    expanding local names through *all* their definitions.

    Leaves are returned as (kind, text) with kind in
    param | const | call | attr | name | other ; calls keep their callee name and are
    not expanded into their arguments unless ``expand_calls``.
    """
    out = set()
    _seen = _seen or set()

    def rec(e, d):
        if e is None:
            return
        if isinstance(e, ast.Constant):
            out.add(("const", repr(e.value)))
        elif isinstance(e, ast.Name):
            ds = defs.get(e.id)
            if not ds:
                out.add(("name", e.id))
                return
            for df in ds:
                if df.kind == "param":
                    out.add(("param", e.id))
                elif df.kind == "comp":
                    if d > 0 and (e.id, id(df)) not in _seen:
                        _seen.add((e.id, id(df)))
                        rec(df.value, d - 1)
                elif df.kind in ("import", "def", "except"):
                    out.add(("name", e.id))
                elif d <= 0 or (e.id, id(df)) in _seen:
                    out.add(("name", e.id))
                else:
                    _seen.add((e.id, id(df)))
                    if df.kind == "unpack":
                        out.add(("unpack", f"{unparse(df.value)}[{df.index}]"))
                    rec(df.value, d - 1)
        elif isinstance(e, (ast.ListComp, ast.SetComp, ast.GeneratorExp, ast.DictComp)):
            # comprehension variables are local to the comprehension: they stand for their iterables
            local = {}
            for g in e.generators:
                _targets(g.target, g.iter, None, "comp", local)
            saved = {k: defs.get(k) for k in local}
            for k, v in local.items():
                defs[k] = v
            try:
                for g in e.generators:
                    rec(g.iter, d)
                    for c in g.ifs:
                        rec(c, d)
                if isinstance(e, ast.DictComp):
                    rec(e.key, d)
                    rec(e.value, d)
                else:
                    rec(e.elt, d)
            finally:
                for k, v in saved.items():
                    if v is None:
                        defs.pop(k, None)
                    else:
                        defs[k] = v
        elif isinstance(e, ast.Call):
            out.add(("call", dotted(e.func) or unparse(e.func)))
            for a in e.args:
                rec(a, d)
            for k in e.keywords:
                rec(k.value, d)
            if isinstance(e.func, ast.Attribute):
                rec(e.func.value, d)
        elif isinstance(e, ast.Attribute):
            dn = dotted(e)
            if dn:
                out.add(("attr", dn))
                root = dn.split(".")[0]
                if root in defs and root != "self":
                    rec(ast.Name(id=root, ctx=ast.Load()), d)
            else:
                rec(e.value, d)
        elif isinstance(e, ast.Subscript):
            rec(e.value, d)
            rec(e.slice, d)
        else:
            kids = list(ast.iter_child_nodes(e))
            if not kids:
                out.add(("other", type(e).__name__))
            for k in kids:
                if isinstance(k, (ast.expr_context, ast.operator, ast.boolop, ast.cmpop, ast.unaryop)):
                    continue
                rec(k, d)

    rec(expr, depth)
    return out


def names_read(node):
    return {n.id for n in ast.walk(node) if isinstance(n, ast.Name) and isinstance(n.ctx, ast.Load)}


def attr_reads(node, root):
    """Dotted attribute chains rooted at name ``root`` that are read inside node."""
    out = set()
    for n in ast.walk(node):
        if isinstance(n, ast.Attribute):
            d = dotted(n)
            if d and d.split(".")[0] == root:
                out.add(d)
    return out
