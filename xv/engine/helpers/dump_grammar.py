"""Helper subprocess: dump the effective PLY grammar of the analysed tree as JSON.

Usage: python -B dump_grammar.py <repo_root> [--lalr]

Imports ``xonsh.parsers`` from <repo_root> with the YaccLoader stubbed out (no table
file is read or written, no XSH session is loaded, no input is parsed).  Only static
initialisers and the grammar templating run.
"""
import json
import os
import sys

root = sys.argv[1]
want_lalr = "--lalr" in sys.argv
sys.dont_write_bytecode = True
sys.path.insert(0, root)
os.environ.setdefault("XONSH_DEBUG", "0")

import xonsh.parsers.base as base  # noqa: E402
from xonsh.parsers.ply import yacc  # noqa: E402


class _NoLoader:
    def __init__(self, *a, **k):
        pass

    def join(self, *a, **k):
        pass

    def start(self, *a, **k):
        pass

    def is_alive(self):
        return False


base.YaccLoader = _NoLoader
import xonsh.parsers.v310 as v310  # noqa: E402

# the class the running interpreter selects (xonsh/parser.py logic: >= 3.13 -> v313, >= 3.10 -> v310 ...)
selected = "v310"
if sys.version_info >= (3, 13):
    import xonsh.parsers.v313 as v313

    Parser = v313.Parser
    selected = "v313"
else:
    Parser = v310.Parser
inst = Parser()
pdict = {k: getattr(inst, k) for k in dir(inst)}
pdict["start"] = "start_symbols"
pdict["__file__"] = base.__file__
pinfo = yacc.ParserReflect(pdict, log=yacc.NullLogger())
pinfo.get_all()
pinfo.validate_all()
g = yacc.Grammar(pinfo.tokens)
for term, assoc, level in pinfo.preclist:
    g.set_precedence(term, assoc, level)
pfunc_of = {}
for funcname, gram in pinfo.grammar:
    file, line, prodname, syms = gram
    g.add_production(prodname, syms, funcname, file, line)
g.set_start(pinfo.start)
out = {
    "selected": selected,
    "python": list(sys.version_info[:3]),
    "signature": pinfo.signature(),
    "tokens": sorted(pinfo.tokens),
    "precedence": [list(p) for p in pinfo.preclist],
    "start": pinfo.start,
    "productions": [],
    "pfuncs": {},
}
for p in g.Productions[1:]:
    out["productions"].append({"n": p.number, "lhs": p.name, "rhs": list(p.prod), "func": p.func, "file": os.path.relpath(p.file, root) if p.file else None, "line": p.line, "prec": list(p.prec) if p.prec else None})
mro = [c for c in Parser.__mro__ if c is not object]
import inspect  # noqa: E402

out["mro"] = []
for c in mro:
    try:
        f = os.path.relpath(inspect.getsourcefile(c), root)
    except TypeError:
        f = None
    out["mro"].append({"module": c.__module__, "qualname": c.__qualname__, "file": f})
for name in dir(inst):
    if not name.startswith("p_") or name == "p_error":
        continue
    f = getattr(inst, name)
    fn = getattr(f, "__func__", f)
    owner = None
    for c in mro:
        if name in c.__dict__:
            owner = c
            break
    code = getattr(fn, "__code__", None)
    out["pfuncs"][name] = {
        "owner": f"{owner.__module__}.{owner.__qualname__}" if owner else None,
        "dynamic": owner is None,
        "qualname": getattr(fn, "__qualname__", None),
        "file": os.path.relpath(code.co_filename, root) if code else None,
        "line": code.co_firstlineno if code else None,
        "doc": fn.__doc__,
    }
out["undefined_symbols"] = [list(x) for x in g.undefined_symbols()] if hasattr(g, "undefined_symbols") else []
out["unused_terminals"] = list(g.unused_terminals())
out["unused_rules"] = [p.name for p in g.unused_rules()]
try:
    out["unreachable"] = list(g.find_unreachable())
except Exception:
    out["unreachable"] = []
if want_lalr:
    lr = yacc.LRGeneratedTable(g, "LALR", yacc.NullLogger())
    reduced = set()
    for st, acts in lr.lr_action.items():
        for tok, a in acts.items():
            if a < 0:
                reduced.add(-a)
    out["lalr"] = {
        "states": len(lr.lr_action),
        "sr_conflicts": len(lr.sr_conflicts),
        "rr_conflicts": len(lr.rr_conflicts),
        "reduced": sorted(reduced),
        "never_reduced": sorted(set(range(1, len(g.Productions))) - reduced),
    }
    # signature of the on-disk table, if any (read as text, not imported)
    tbl = os.path.join(root, "xonsh", "parser_table.py")
    out["table_file_present"] = os.path.isfile(tbl)
json.dump(out, sys.stdout)
