"""Effective PLY grammar of the analysed tree (DESIGN section 1: the inspect-based leg).

``load(repo, lalr=False)`` runs helpers/dump_grammar.py in a subprocess against the
analysed tree and returns the JSON (cached per digest of the parser sources under
/verif/.cache, which is git-ignored and rebuilt on demand).  ``action_ast(repo, g,
funcname)`` maps an action name to the AST of the method that implements it, following
the MRO the helper reported.
"""

from __future__ import annotations

import hashlib
import json
import os
import subprocess
import sys

from .loader import AnalysisError, AnchorMissing

HERE = os.path.dirname(os.path.abspath(__file__))
CACHE = os.path.join(os.path.dirname(os.path.dirname(HERE)), ".cache")


def _digest(repo, lalr):
    h = hashlib.sha256()
    h.update(sys.version.encode())
    h.update(b"lalr" if lalr else b"plain")
    with open(os.path.join(HERE, "helpers", "dump_grammar.py"), "rb") as f:
        h.update(f.read())
    for rel in repo.py_files("xonsh/parsers") + ["xonsh/__init__.py", "xonsh/platform.py", "xonsh/lib/lazyasd.py", "xonsh/tools.py"]:
        if rel.endswith("parser_table.py"):
            continue
        try:
            with open(repo.path(rel), "rb") as f:
                h.update(rel.encode())
                h.update(f.read())
        except OSError:
            pass
    return h.hexdigest()[:24]


def load(repo, lalr=False):
    dg = _digest(repo, lalr)
    path = os.path.join(CACHE, f"grammar-{dg}.json")
    if os.path.isfile(path):
        try:
            with open(path) as f:
                return json.load(f)
        except (OSError, ValueError):
            pass
    cmd = [sys.executable, "-B", os.path.join(HERE, "helpers", "dump_grammar.py"), repo.root] + (["--lalr"] if lalr else [])
    env = dict(os.environ)
    env.pop("PYTHONPATH", None)
    p = subprocess.run(cmd, capture_output=True, text=True, timeout=600, env=env, cwd="/")
    if p.returncode != 0:
        raise AnalysisError("grammar helper failed: " + (p.stderr.strip().splitlines() or ["?"])[-1][:300])
    try:
        g = json.loads(p.stdout)
    except ValueError:
        raise AnalysisError("grammar helper produced no JSON: " + p.stdout[:200])
    try:
        os.makedirs(CACHE, exist_ok=True)
        # keep the cache small
        ents = sorted((os.path.getmtime(os.path.join(CACHE, e)), e) for e in os.listdir(CACHE) if e.startswith("grammar-"))
        for _, e in ents[:-40]:
            os.unlink(os.path.join(CACHE, e))
        tmp = path + f".{os.getpid()}.tmp"
        with open(tmp, "w") as f:
            json.dump(g, f)
        os.replace(tmp, path)
    except OSError:
        pass
    return g


_MOD_FILES = {
    "xonsh.parsers.base": "xonsh/parsers/base.py",
    "xonsh.parsers.v36": "xonsh/parsers/v36.py",
    "xonsh.parsers.v38": "xonsh/parsers/v38.py",
    "xonsh.parsers.v39": "xonsh/parsers/v39.py",
    "xonsh.parsers.v310": "xonsh/parsers/v310.py",
    "xonsh.parsers.v313": "xonsh/parsers/v313.py",
    "xonsh.parsers.fstring_rules_llm": "xonsh/parsers/fstring_rules_llm.py",
}


def action_ast(repo, g, funcname):
    """(module, ast.FunctionDef, is_template) for the action ``funcname`` of the effective
    parser.  Template closures (``_opt_rule`` & co.) are returned as their enclosing
    function's nested def with is_template=True."""
    info = g["pfuncs"].get(funcname)
    if info is None:
        raise AnchorMissing(f"action {funcname} not in the effective grammar")
    qual = info.get("qualname") or ""
    rel = info.get("file")
    if rel is None or not repo.exists(rel):
        raise AnchorMissing(f"action {funcname}: source file {rel} not found")
    mod = repo.module(rel)
    q = qual.replace(".<locals>", "")
    if mod.has(q):
        return mod, mod.func(q), "<locals>" in qual
    # fall back: search by line
    for qq, fn in mod.functions():
        if fn.lineno == info.get("line") or any(getattr(d, "lineno", -1) == info.get("line") for d in fn.decorator_list):
            return mod, fn, "<locals>" in qual
    raise AnchorMissing(f"action {funcname}: definition {qual} not found in {rel}")


def productions_of(g, lhs):
    return [p for p in g["productions"] if p["lhs"] == lhs]


def mro_classes(repo, g):
    """[(module, ast.ClassDef)] in MRO order for the effective parser class."""
    out = []
    for c in g.get("mro", []):
        rel = c.get("file")
        if rel is None or not repo.exists(rel):
            continue
        mod = repo.module(rel)
        if mod.has(c["qualname"]):
            out.append((mod, mod.cls(c["qualname"])))
    if not out:
        raise AnchorMissing("MRO of the effective parser class could not be mapped to source")
    return out


def resolve_method(repo, g, name, after=None):
    """First definition of method ``name`` in the MRO (after class node ``after`` if given)."""
    import ast as _ast

    chain = mro_classes(repo, g)
    started = after is None
    for mod, cls in chain:
        if not started:
            if cls is after:
                started = True
            continue
        for n in cls.body:
            if isinstance(n, (_ast.FunctionDef, _ast.AsyncFunctionDef)) and n.name == name:
                return mod, cls, n
    return None


def action_bodies(repo, g, funcname, _depth=0):
    """All function ASTs that make up the effective action: the resolved method itself,
    the methods it delegates to with ``super().m(p)`` / ``self.p_other(p)`` (MRO-resolved),
    transitively.  Template closures are returned as single bodies."""
    import ast as _ast
    from .loader import call_name, calls_in

    info = g["pfuncs"].get(funcname)
    if info is not None and "<locals>" in (info.get("qualname") or ""):
        mod, fn, _ = action_ast(repo, g, funcname)
        return [(mod, fn)]
    first = resolve_method(repo, g, funcname)
    if first is None:
        if info is not None:
            mod, fn, _ = action_ast(repo, g, funcname)
            return [(mod, fn)]
        raise AnchorMissing(f"method {funcname} not found in the MRO")
    out = []
    todo = [first]
    seen = set()
    while todo:
        mod, cls, fn = todo.pop()
        if id(fn) in seen:
            continue
        seen.add(id(fn))
        out.append((mod, fn))
        if len(out) > 12:
            break
        for c in calls_in(fn):
            nm = call_name(c)
            f = c.func
            if isinstance(f, _ast.Attribute) and isinstance(f.value, _ast.Call) and isinstance(f.value.func, _ast.Name) and f.value.func.id == "super":
                nxt = resolve_method(repo, g, f.attr, after=cls)
                if nxt is not None:
                    todo.append(nxt)
            elif nm and nm.startswith("self.") and nm.count(".") == 1 and (nm[5:].startswith("p_") or nm[5:].startswith("_")):
                nxt = resolve_method(repo, g, nm[5:])
                if nxt is not None and nxt[2] is not fn:
                    todo.append(nxt)
    return out
