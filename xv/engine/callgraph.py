"""Light intra-repository call graph: bare names resolve to module-level functions of
the given modules (imports by name), ``self.m`` to methods of the enclosing class (own
or inherited inside the module set), plus explicit extra edges supplied by the rule for
dynamic dispatch it knows about (``for tok in lexer`` -> Lexer.__iter__)."""

from __future__ import annotations

import ast

from .loader import FuncTypes, call_name, calls_in, qual_of, enclosing_func


class CallGraph:
    def __init__(self, modules, extra=None):
        self.mods = modules
        self.funcs = {}  # (rel, qual) -> node
        self.by_bare = {}  # bare name -> [(rel, qual)]
        for m in modules:
            for q, fn in m.functions():
                self.funcs[(m.rel, q)] = fn
                self.by_bare.setdefault(q.split(".")[-1], []).append((m.rel, q))
        self.extra = extra or {}

    def callees(self, key):
        rel, q = key
        fn = self.funcs[key]
        out = set()
        cls = q.rsplit(".", 1)[0] if "." in q else None
        for c in calls_in(fn):
            nm = call_name(c)
            if nm is None:
                continue
            parts = nm.split(".")
            if len(parts) == 1:
                # nested function of the same function first
                if (rel, f"{q}.{nm}") in self.funcs:
                    out.add((rel, f"{q}.{nm}"))
                    continue
                for cand in self.by_bare.get(nm, []):
                    if "." not in cand[1]:
                        out.add(cand)
            elif parts[0] == "self" and len(parts) == 2 and cls:
                # walk up the class nesting (nested function inside a method: class is higher)
                qq = q
                while "." in qq:
                    qq = qq.rsplit(".", 1)[0]
                    if (rel, f"{qq}.{parts[1]}") in self.funcs:
                        out.add((rel, f"{qq}.{parts[1]}"))
                        break
            elif len(parts) == 2:
                # module alias or object: resolve by bare method/function name if unique
                cands = self.by_bare.get(parts[1], [])
                if len(cands) == 1:
                    out.add(cands[0])
        for k in self.extra.get(key, ()):
            if k in self.funcs:
                out.add(k)
        return out

    def reachable(self, roots):
        seen = set()
        todo = [r for r in roots if r in self.funcs]
        while todo:
            k = todo.pop()
            if k in seen:
                continue
            seen.add(k)
            todo.extend(self.callees(k) - seen)
        return seen
