"""Helper-transparent view of a function: calls to helpers of the same repository are expanded in place.

"Extract a helper" / "split the function" are the most common behaviour-preserving edits, and the
most common way of hiding a breaking one.  Rules that reason about paths, order or data flow of ONE
function therefore look at its *flattened* form: an AST in which a call to a resolvable helper
(same-module function, method of the same class or of a base class in the module, function
imported from another module of the repository) is replaced by the helper's body, to a stated
depth.  Nothing is executed; this is the compiler's inlining, applied to syntax.

Shapes that are expanded (the call is the whole value of the statement):

    helper(a)                 x = helper(a)            x += helper(a)
    return helper(a)          if helper(a): / if not helper(a):     x: T = helper(a)
    raise helper(a)

* ``return helper(a)`` (tail position): the helper's returns stay returns.
* helper with a single trailing return (or none): its body is spliced in and the return
  expression takes the place of the call (so `x = <expr>` keeps its recognisable shape).
* helper with several returns elsewhere: the body is wrapped in ``with __xv_inline__:`` and each
  ``return e`` becomes ``__xv_retK = e; raise __xv_return__``; the CFG builder knows both markers
  (an "inline" frame: the raise jumps to the end of the block through enclosing finally blocks).

Parameters are bound by assignments ``param = arg`` in evaluation order (omitted when the argument is
a name spelled like the parameter); helper locals that collide with names of the caller get a
``__iK`` suffix.  ``with helper(a) [as v]: body`` with a generator-based context manager of the repository (single yield statement):
the generator's body with the yield replaced by the with-body.

Not expanded (left as calls): other generators, async functions, decorated functions
(other than staticmethod/classmethod), recursion, calls with ``*args``/``**kw`` at the call site,
helpers above the size bound.  Statement nodes copied from a helper carry ``_xv_from =
(module.rel, qualname)`` and keep their own line numbers, so reports still point at real source.
"""

from __future__ import annotations

import ast

from .dtable import clone
from .loader import FuncTypes, ancestors, qual_of, set_parents, walk_local

MARK = "__xv_inline__"
RET = "__xv_return__"
MAX_STMTS = 120


def is_inline_block(s):
    return isinstance(s, ast.With) and len(s.items) == 1 and isinstance(s.items[0].context_expr, ast.Name) and s.items[0].context_expr.id == MARK


def is_inline_return(s):
    return isinstance(s, ast.Raise) and isinstance(s.exc, ast.Name) and s.exc.id == RET


def _has_yield(fn):
    return any(isinstance(n, (ast.Yield, ast.YieldFrom, ast.Await)) for n in walk_local(fn))


def _count_stmts(fn):
    return sum(1 for n in ast.walk(fn) if isinstance(n, ast.stmt))


class _Rename(ast.NodeTransformer):
    def __init__(self, mapping):
        self.m = mapping

    def visit_Name(self, node):
        if node.id in self.m:
            node.id = self.m[node.id]
        return node

    def visit_ExceptHandler(self, node):
        if node.name in self.m:
            node.name = self.m[node.name]
        self.generic_visit(node)
        return node

    def visit_arg(self, node):
        return node

    def visit_Global(self, node):
        return node

    def visit_Nonlocal(self, node):
        return node


class _ConstProp(ast.NodeTransformer):
    def __init__(self, consts):
        self.c = consts

    def visit_Name(self, node):
        if isinstance(node.ctx, ast.Load) and node.id in self.c:
            return ast.copy_location(ast.Constant(value=self.c[node.id].value), node)
        return node

    def visit_FunctionDef(self, node):
        return node

    visit_Lambda = visit_AsyncFunctionDef = visit_FunctionDef


class _Desugar(ast.NodeTransformer):
    """getattr(x, "name") -> x.name ; statement setattr(x, "name", v) -> x.name = v ; f-string of constants folded"""

    def visit_Call(self, node):
        self.generic_visit(node)
        if isinstance(node.func, ast.Name) and node.func.id == "getattr" and len(node.args) == 2 and not node.keywords and isinstance(node.args[1], ast.Constant) and isinstance(node.args[1].value, str) and node.args[1].value.isidentifier():
            return ast.copy_location(ast.Attribute(value=node.args[0], attr=node.args[1].value, ctx=ast.Load()), node)
        return node

    def visit_Expr(self, node):
        self.generic_visit(node)
        c = node.value
        if isinstance(c, ast.Call) and isinstance(c.func, ast.Name) and c.func.id == "setattr" and len(c.args) == 3 and not c.keywords and isinstance(c.args[1], ast.Constant) and isinstance(c.args[1].value, str) and c.args[1].value.isidentifier():
            new = ast.Assign(targets=[ast.Attribute(value=c.args[0], attr=c.args[1].value, ctx=ast.Store())], value=c.args[2], type_comment=None)
            return ast.copy_location(new, node)
        return node

    def visit_FunctionDef(self, node):
        if getattr(self, "_top", None) is None:
            self._top = node
            self.generic_visit(node)
        return node


def _local_names(fn):
    out = set()
    a = fn.args
    for p in a.posonlyargs + a.args + a.kwonlyargs + ([a.vararg] if a.vararg else []) + ([a.kwarg] if a.kwarg else []):
        out.add(p.arg)
    globs = set()
    for n in walk_local(fn, include_root=False):
        if isinstance(n, ast.Name) and isinstance(n.ctx, (ast.Store, ast.Del)):
            out.add(n.id)
        elif isinstance(n, ast.ExceptHandler) and n.name:
            out.add(n.name)
        elif isinstance(n, (ast.Global, ast.Nonlocal)):
            globs |= set(n.names)
        elif isinstance(n, (ast.Import, ast.ImportFrom)):
            for al in n.names:
                out.add((al.asname or al.name).split(".")[0])
    return out - globs


class Flattener:
    def __init__(self, repo, depth=2, skip=(), cross_public=False):
        self.repo = repo
        self.depth = depth
        self.cross_public = cross_public  # also expand public functions imported from other modules
        self.skip = set(skip)  # bare names of helpers never to expand
        self.k = 0
        self.expanded = []  # (caller line, helper qualname) for the evidence

    # ------------------------------------------------------------------ resolution
    def _class_of(self, fn):
        for a in ancestors(fn):
            if isinstance(a, ast.ClassDef):
                return a
            if isinstance(a, FuncTypes):
                return None
        return None

    def _method(self, mod, cls, name, seen=None):
        seen = seen or set()
        if cls is None or id(cls) in seen:
            return None
        seen.add(id(cls))
        found = None
        for n in cls.body:
            if isinstance(n, FuncTypes) and n.name == name:
                found = n  # last definition wins
        if found is not None:
            return found
        for b in cls.bases:
            if isinstance(b, ast.Name) and mod.has(b.id) and isinstance(mod.quals[b.id], ast.ClassDef):
                m = self._method(mod, mod.quals[b.id], name, seen)
                if m is not None:
                    return m
        return None

    def _imported(self, mod, name):
        for n in mod.tree.body:
            if isinstance(n, ast.ImportFrom) and n.module and n.level == 0 and n.module.startswith("xonsh"):
                for al in n.names:
                    if (al.asname or al.name) == name:
                        rel = n.module.replace(".", "/") + ".py"
                        if not self.repo.exists(rel):
                            rel = n.module.replace(".", "/") + "/__init__.py"
                        if self.repo.exists(rel):
                            m2 = self.repo.module(rel)
                            if m2.has(al.name) and isinstance(m2.quals[al.name], FuncTypes):
                                return m2, m2.quals[al.name]
        return None

    def resolve(self, mod, cls, call, local_names):
        """(module, FunctionDef, receiver expr or None, kind) or None; kind in plain/self/cls/static"""
        f = call.func
        if isinstance(f, ast.Name):
            if f.id in local_names or f.id in self.skip:
                return None
            if mod.has(f.id) and isinstance(mod.quals[f.id], FuncTypes):
                return mod, mod.quals[f.id], None, "plain"
            imp = self._imported(mod, f.id) if (f.id.startswith("_") or self.cross_public) else None
            if imp:
                return imp[0], imp[1], None, "plain"
            return None
        if isinstance(f, ast.Attribute) and isinstance(f.value, ast.Name) and f.attr not in self.skip:
            recv = f.value.id
            target = None
            if recv in ("self", "cls") and cls is not None:
                target = self._method(mod, cls, f.attr)
            elif mod.has(recv) and isinstance(mod.quals[recv], ast.ClassDef) and recv not in local_names:
                target = self._method(mod, mod.quals[recv], f.attr)
            if target is None:
                return None
            decos = {ast.unparse(d) for d in target.decorator_list}
            if "staticmethod" in decos:
                return mod, target, None, "plain"
            if "classmethod" in decos:
                return mod, target, f.value, "cls"
            if recv in ("self",):
                return mod, target, f.value, "self"
            return mod, target, None, "plain"  # Class.m(obj, ...): explicit receiver
        return None

    def _eligible(self, callee, stack):
        if not isinstance(callee, ast.FunctionDef):
            return False
        if any(callee is s for s in stack):
            return False
        decos = {ast.unparse(d) for d in callee.decorator_list}
        if decos - {"staticmethod", "classmethod"}:
            return False
        if _has_yield(callee):
            return False
        if any(isinstance(n, ast.Nonlocal) for n in walk_local(callee)):
            return False
        if _count_stmts(callee) > MAX_STMTS:
            return False
        return True

    # ------------------------------------------------------------------ binding
    def _bind(self, callee, call, recv, kind):
        """[(param, expr)] in evaluation order, or None if the call cannot be matched"""
        if any(isinstance(a, ast.Starred) for a in call.args) or any(k.arg is None for k in call.keywords):
            return None
        a = callee.args
        pos = [p.arg for p in a.posonlyargs + a.args]
        binds = []
        if kind in ("self", "cls"):
            if not pos:
                return None
            first = pos.pop(0)
            if kind == "self":
                binds.append((first, clone(recv)))
            else:
                r = clone(recv)
                if isinstance(recv, ast.Name) and recv.id == "self":
                    r = ast.Call(func=ast.Name(id="type", ctx=ast.Load()), args=[r], keywords=[])
                binds.append((first, r))
        given = {}
        args = list(call.args)
        extra_pos = []
        for i, v in enumerate(args):
            if i < len(pos):
                given[pos[i]] = v
            else:
                extra_pos.append(v)
        if extra_pos and not a.vararg:
            return None
        extra_kw = []
        kwonly = [p.arg for p in a.kwonlyargs]
        for k in call.keywords:
            if k.arg in pos or k.arg in kwonly:
                if k.arg in given:
                    return None
                given[k.arg] = k.value
            else:
                extra_kw.append(k)
        if extra_kw and not a.kwarg:
            return None
        defaults = dict(zip(reversed([p.arg for p in a.posonlyargs + a.args]), reversed(a.defaults)))
        for p, d in zip(a.kwonlyargs, a.kw_defaults):
            if d is not None:
                defaults[p.arg] = d
        for p in pos + kwonly:
            if p in given:
                binds.append((p, clone(given[p])))
            elif p in defaults:
                binds.append((p, clone(defaults[p])))
            else:
                return None
        if a.vararg:
            binds.append((a.vararg.arg, ast.Tuple(elts=[clone(v) for v in extra_pos], ctx=ast.Load())))
        if a.kwarg:
            binds.append((a.kwarg.arg, ast.Dict(keys=[ast.Constant(value=k.arg) for k in extra_kw], values=[clone(k.value) for k in extra_kw])))
        return binds

    # ------------------------------------------------------------------ expansion
    def _call_of(self, s):
        """(call, mode) for the supported statement shapes"""
        if isinstance(s, ast.Expr) and isinstance(s.value, ast.Call):
            return s.value, "drop"
        if isinstance(s, (ast.Assign, ast.AugAssign)) and isinstance(s.value, ast.Call):
            return s.value, "value"
        if isinstance(s, ast.AnnAssign) and isinstance(s.value, ast.Call):
            return s.value, "value"
        if isinstance(s, ast.Return) and isinstance(s.value, ast.Call):
            return s.value, "tail"
        if isinstance(s, ast.Raise) and isinstance(s.exc, ast.Call) and s.cause is None:
            return s.exc, "raise"
        if isinstance(s, ast.If):
            t = s.test
            if isinstance(t, ast.Call):
                return t, "test"
            if isinstance(t, ast.UnaryOp) and isinstance(t.op, ast.Not) and isinstance(t.operand, ast.Call):
                return t.operand, "test"
        return None, None

    def _expand(self, s, mod, cls, used, depth, stack, local_names):
        call, mode = self._call_of(s)
        if call is None or depth <= 0:
            return None
        res = self.resolve(mod, cls, call, local_names)
        if res is None:
            return None
        cmod, callee, recv, kind = res
        if not self._eligible(callee, stack):
            return None
        binds = self._bind(callee, call, recv, kind)
        if binds is None:
            return None
        self.k += 1
        k = self.k
        body = clone([x for x in callee.body])
        if body and isinstance(body[0], ast.Expr) and isinstance(body[0].value, ast.Constant) and isinstance(body[0].value.value, str):
            body = body[1:]
        # rename colliding helper locals
        locs = _local_names(callee)
        same = {p for p, e in binds if isinstance(e, ast.Name) and e.id == p}
        mapping = {n: f"{n}__i{k}" for n in locs if n in used and n not in same}
        if mapping:
            ren = _Rename(mapping)
            body = [ren.visit(x) for x in body]
        # constant arguments of parameters the helper never rebinds are propagated into the body
        # (`attr = "_stdin"` ... `getattr(self, attr)` becomes `getattr(self, "_stdin")`)
        rebound = {n.id for x in body for n in ast.walk(x) if isinstance(n, ast.Name) and isinstance(n.ctx, (ast.Store, ast.Del))}
        consts = {mapping.get(p, p): e for p, e in binds if isinstance(e, ast.Constant) and mapping.get(p, p) not in rebound}
        if consts:
            cp = _ConstProp(consts)
            body = [cp.visit(x) for x in body]
            binds = [(p, e) for p, e in binds if mapping.get(p, p) not in consts]
        pre = []
        for p, e in binds:
            tgt = mapping.get(p, p)
            if isinstance(e, ast.Name) and e.id == tgt:
                continue
            pre.append(ast.copy_location(ast.Assign(targets=[ast.Name(id=tgt, ctx=ast.Store())], value=e, type_comment=None), s))
        for x in pre:
            x._xv_bind = True  # type: ignore[attr-defined]
        used |= {mapping.get(n, n) for n in locs}
        # an argument that is itself a resolvable helper call (`outer(inner(a))`): expand the parameter binding too
        if any(isinstance(x.value, ast.Call) for x in pre):
            pre = self._stmts(pre, mod, cls, used, depth - 1, stack, local_names)
        qual = qual_of(callee) or callee.name
        self.expanded.append((getattr(s, "lineno", 0), f"{cmod.rel}:{qual}"))
        # helper's own nested helpers
        ccls = self._class_of(callee)
        body = self._stmts(body, cmod, ccls, used, depth - 1, stack + [callee], {mapping.get(n, n) for n in locs})
        for x in body:
            for y in ast.walk(x):
                if isinstance(y, ast.stmt) and not hasattr(y, "_xv_from"):
                    y._xv_from = (cmod.rel, qual)  # type: ignore[attr-defined]
        # the call itself stays visible, as a statement of its own in front of the expansion (rules that
        # look for "a call of X" keep finding it, at the position where it is made)
        marker = ast.copy_location(ast.Expr(value=clone(call)), s)
        marker._xv_call_marker = True  # type: ignore[attr-defined]
        pre = [marker] + pre
        rets = [n for x in body for n in _walk_stmts(x) if isinstance(n, ast.Return)]
        if mode == "tail":
            out = pre + body
            if not body or _can_fall_through(body):
                out.append(ast.copy_location(ast.Return(value=ast.Constant(value=None)), s))
            return out
        single_tail = (not rets) or (len(rets) == 1 and body and body[-1] is rets[0])
        if single_tail:
            rexpr = rets[0].value if rets and rets[0].value is not None else ast.Constant(value=None)
            core = body[:-1] if rets else body
            return pre + core + self._finish(s, mode, rexpr)
        rname = f"__xv_ret{k}"
        init = ast.copy_location(ast.Assign(targets=[ast.Name(id=rname, ctx=ast.Store())], value=ast.Constant(value=None), type_comment=None), s)
        body = _replace_returns(body, rname)
        blk = ast.copy_location(ast.With(items=[ast.withitem(context_expr=ast.Name(id=MARK, ctx=ast.Load()), optional_vars=None)], body=body or [ast.Pass()], type_comment=None), s)
        blk._xv_from = (cmod.rel, qual)  # type: ignore[attr-defined]
        return pre + [init, blk] + self._finish(s, mode, ast.Name(id=rname, ctx=ast.Load()))

    def _finish(self, s, mode, rexpr):
        if mode == "drop":
            if any(isinstance(x, ast.Call) for x in ast.walk(rexpr)):
                return [ast.copy_location(ast.Expr(value=rexpr), s)]
            return []
        if mode == "value":
            s.value = rexpr
            return [s]
        if mode == "raise":
            s.exc = rexpr
            return [s]
        if mode == "test":
            if isinstance(s.test, ast.Call):
                s.test = rexpr
            else:
                s.test.operand = rexpr
            return [s]
        raise AssertionError(mode)

    def _stmts(self, stmts, mod, cls, used, depth, stack, local_names):
        out = []
        for s in stmts:
            if isinstance(s, FuncTypes + (ast.ClassDef,)):
                out.append(s)
                continue
            for field in ("body", "orelse", "finalbody"):
                v = getattr(s, field, None)
                if isinstance(v, list) and v and isinstance(v[0], ast.stmt):
                    setattr(s, field, self._stmts(v, mod, cls, used, depth, stack, local_names))
            for h in getattr(s, "handlers", []) or []:
                h.body = self._stmts(h.body, mod, cls, used, depth, stack, local_names)
            for c in getattr(s, "cases", []) or []:
                c.body = self._stmts(c.body, mod, cls, used, depth, stack, local_names)
            rep = self._expand(s, mod, cls, used, depth, stack, local_names)
            if rep is None and isinstance(s, ast.With):
                rep = self._expand_cm(s, mod, cls, used, depth, stack, local_names)
            if rep is None:
                rep = self._hoist_first_arg(s, mod, cls, used, depth, stack, local_names)
            out.extend(rep if rep is not None else [s])
        return out

    def _hoist_first_arg(self, s, mod, cls, used, depth, stack, local_names):
        """`f(helper(a), ..)` as the value of a statement, `helper` resolvable: the helper call is evaluated first (after the
        plain name lookup of `f`), so `t = helper(a); f(t, ..)` is the same program - and `t = helper(a)` can be expanded."""
        if depth <= 0 or not isinstance(s, (ast.Expr, ast.Assign, ast.Return)) or not isinstance(getattr(s, "value", None), ast.Call):
            return None
        outer = s.value
        f = outer.func
        while isinstance(f, ast.Attribute):
            f = f.value
        if not isinstance(f, ast.Name) or not outer.args or not isinstance(outer.args[0], ast.Call):
            return None
        inner = outer.args[0]
        res = self.resolve(mod, cls, inner, local_names)
        if res is None or not self._eligible(res[1], stack):
            return None
        self.k += 1
        tname = f"__xv_h{self.k}"
        tmp = ast.copy_location(ast.Assign(targets=[ast.Name(id=tname, ctx=ast.Store())], value=inner, type_comment=None), s)
        ast.fix_missing_locations(tmp)
        exp = self._expand(tmp, mod, cls, used, depth, stack, local_names)
        if exp is None:
            return None
        outer.args[0] = ast.copy_location(ast.Name(id=tname, ctx=ast.Load()), inner)
        return exp + [s]

    def _expand_cm(self, s, mod, cls, used, depth, stack, local_names):
        """`with helper(args) [as v]: body` where helper is a generator-based context manager of the repository
        with a single `yield` statement: the generator's body with the yield replaced by the with-body.  An
        exception in the body is thrown at the yield point, so try/finally and handlers around the yield keep
        their meaning."""
        if depth <= 0 or len(s.items) != 1 or not isinstance(s.items[0].context_expr, ast.Call):
            return None
        call = s.items[0].context_expr
        res = self.resolve(mod, cls, call, local_names)
        if res is None:
            return None
        cmod, callee, recv, kind = res
        if not isinstance(callee, ast.FunctionDef) or any(callee is x for x in stack):
            return None
        decos = {ast.unparse(d) for d in callee.decorator_list}
        if not (decos & {"contextlib.contextmanager", "contextmanager"}) or decos - {"contextlib.contextmanager", "contextmanager", "staticmethod"}:
            return None
        ys = [n for n in walk_local(callee) if isinstance(n, (ast.Yield, ast.YieldFrom))]
        if len(ys) != 1 or not isinstance(ys[0], ast.Yield) or any(isinstance(n, ast.Return) for n in walk_local(callee)) or _count_stmts(callee) > MAX_STMTS:
            return None
        binds = self._bind(callee, call, recv, kind)
        if binds is None:
            return None
        self.k += 1
        k = self.k
        body = clone([x for x in callee.body])
        if body and isinstance(body[0], ast.Expr) and isinstance(body[0].value, ast.Constant) and isinstance(body[0].value.value, str):
            body = body[1:]
        locs = _local_names(callee)
        same = {p for p, e in binds if isinstance(e, ast.Name) and e.id == p}
        mapping = {n: f"{n}__i{k}" for n in locs if n in used and n not in same}
        if mapping:
            ren = _Rename(mapping)
            body = [ren.visit(x) for x in body]
        pre = []
        for p, e in binds:
            tgt = mapping.get(p, p)
            if isinstance(e, ast.Name) and e.id == tgt:
                continue
            b_ = ast.copy_location(ast.Assign(targets=[ast.Name(id=tgt, ctx=ast.Store())], value=e, type_comment=None), s)
            b_._xv_bind = True
            pre.append(b_)
        used |= {mapping.get(n, n) for n in locs}
        qual = qual_of(callee) or callee.name
        self.expanded.append((getattr(s, "lineno", 0), f"{cmod.rel}:{qual}"))
        wbody = list(s.body)
        state = {"done": False}

        def put(stmts):
            out_ = []
            for x in stmts:
                if isinstance(x, ast.Expr) and isinstance(x.value, ast.Yield) and not state["done"]:
                    state["done"] = True
                    if s.items[0].optional_vars is not None:
                        val = x.value.value if x.value.value is not None else ast.Constant(value=None)
                        out_.append(ast.copy_location(ast.Assign(targets=[s.items[0].optional_vars], value=val, type_comment=None), s))
                    out_ += wbody
                    continue
                if isinstance(x, FuncTypes + (ast.ClassDef,)):
                    out_.append(x)
                    continue
                for field in ("body", "orelse", "finalbody"):
                    v = getattr(x, field, None)
                    if isinstance(v, list) and v and isinstance(v[0], ast.stmt):
                        setattr(x, field, put(v))
                for h in getattr(x, "handlers", []) or []:
                    h.body = put(h.body)
                out_.append(x)
            return out_

        body = put(body)
        if not state["done"]:
            return None  # the yield is not a statement of its own (value used): unknown shape
        marker = ast.copy_location(ast.Expr(value=clone(call)), s)
        marker._xv_call_marker = True
        for x in body:
            for y in ast.walk(x):
                if isinstance(y, ast.stmt) and not hasattr(y, "_xv_from") and not any(y is w for wb in wbody for w in ast.walk(wb)):
                    y._xv_from = (cmod.rel, qual)
        return [marker] + pre + body

    def flatten(self, fn):
        """A new FunctionDef (parents set, module/qualname links kept) with helpers expanded."""
        mod = fn._xv_mod
        cls = self._class_of(fn)
        new = clone(fn)
        used = {n.id for n in ast.walk(fn) if isinstance(n, ast.Name)} | _local_names(fn)
        new.body = self._stmts(new.body, mod, cls, used, self.depth, [fn], _local_names(fn))
        if self.expanded:
            new = _Desugar().visit(new)
        ast.fix_missing_locations(new)
        set_parents(new)
        new._xv_parent = getattr(fn, "_xv_parent", None)
        for n in ast.walk(new):
            if not hasattr(n, "_xv_mod"):
                n._xv_mod = mod
        # statements copied from another module report that module
        for n in ast.walk(new):
            fr = getattr(n, "_xv_from", None)
            if fr is not None and fr[0] != mod.rel:
                m2 = self.repo.module(fr[0])
                for y in ast.walk(n):
                    y._xv_mod = m2
        new._xv_qual = qual_of(fn)
        new._xv_flat_of = fn
        return new


def _walk_stmts(s):
    """statements of s (transitively) that belong to the same function"""
    yield s
    for field in ("body", "orelse", "finalbody"):
        v = getattr(s, field, None)
        if isinstance(v, list) and not isinstance(s, FuncTypes + (ast.ClassDef,)):
            for x in v:
                if isinstance(x, ast.stmt):
                    yield from _walk_stmts(x)
    for h in getattr(s, "handlers", []) or []:
        for x in h.body:
            yield from _walk_stmts(x)
    for c in getattr(s, "cases", []) or []:
        for x in c.body:
            yield from _walk_stmts(x)


def _can_fall_through(body):
    """conservative: True unless the last statement is a return/raise (or an if/else whose both arms cannot)"""
    if not body:
        return True
    last = body[-1]
    if isinstance(last, (ast.Return, ast.Raise)):
        return False
    if isinstance(last, ast.If) and last.orelse:
        return _can_fall_through(last.body) or _can_fall_through(last.orelse)
    if isinstance(last, ast.While) and isinstance(last.test, ast.Constant) and last.test.value and not any(isinstance(n, ast.Break) for n in ast.walk(last)):
        return False
    return True


def _replace_returns(stmts, rname):
    out = []
    for s in stmts:
        if isinstance(s, FuncTypes + (ast.ClassDef,)):
            out.append(s)
            continue
        if isinstance(s, ast.Return):
            v = s.value if s.value is not None else ast.Constant(value=None)
            a = ast.copy_location(ast.Assign(targets=[ast.Name(id=rname, ctx=ast.Store())], value=v, type_comment=None), s)
            r = ast.copy_location(ast.Raise(exc=ast.Name(id=RET, ctx=ast.Load()), cause=None), s)
            for x in (a, r):
                if hasattr(s, "_xv_from"):
                    x._xv_from = s._xv_from
            a._xv_return_value = True  # type: ignore[attr-defined]
            out += [a, r]
            continue
        for field in ("body", "orelse", "finalbody"):
            v = getattr(s, field, None)
            if isinstance(v, list) and v and isinstance(v[0], ast.stmt):
                setattr(s, field, _replace_returns(v, rname))
        for h in getattr(s, "handlers", []) or []:
            h.body = _replace_returns(h.body, rname)
        for c in getattr(s, "cases", []) or []:
            c.body = _replace_returns(c.body, rname)
        out.append(s)
    return out


def flatten(repo, fn, depth=2, skip=(), cross_public=False):
    """Convenience: flattened copy of ``fn`` and the list of expansions performed."""
    fn = getattr(fn, "_xv_flat_of", fn)  # always start from the source form
    fl = Flattener(repo, depth=depth, skip=skip, cross_public=cross_public)
    new = fl.flatten(fn)
    new._xv_expanded = fl.expanded
    return new
