"""Obligations, violations, known findings, evidence and exit codes."""

from __future__ import annotations

import json
import os
import time

from .loader import AnalysisError, Repo

VERIF = os.path.dirname(os.path.dirname(os.path.dirname(os.path.abspath(__file__))))
KNOWN_FILE = os.path.join(VERIF, "known_findings.json")


def load_known():
    try:
        with open(KNOWN_FILE) as f:
            data = json.load(f)
    except FileNotFoundError:
        return []
    return data.get("findings", [])


class Ctx:
    """One run of one property's rules."""

    def __init__(self, prop, tier="quick", repo=None, evidence_dir=None):
        self.prop = prop
        self.tier = tier
        self.repo = repo or Repo()
        self.t0 = time.time()
        self.obligations = []  # dicts
        self.violations = []
        self.known_hits = []
        self.notes = []
        self.rules = {}  # rule id -> description
        self.floors = {}  # rule id -> (min instances, counted)
        self.not_decided = []
        self.extra = {}
        self.evidence_dir = evidence_dir or os.path.join(VERIF, "evidence")
        self.known = [
            k for k in load_known() if k.get("property") == prop and k.get("status") == "known"
        ]
        self.seed = int(os.environ.get("VERIF_SEED", "0") or 0)

    # ------------------------------------------------------------------ api
    def rule(self, rid, text, floor=0):
        """Declare a rule (id like 'R1') with the minimum number of instances it must see."""
        self.rules[rid] = text
        self.floors[rid] = [floor, 0]

    def ob(self, rid, site, what, ok, *, key=None, detail=None, where=None, path=None):
        """Record one obligation.

        rid   rule id (``R1``)
        site  construct the obligation is about (``file:Class.func``), stable text
        what  human-readable obligation
        ok    discharged?
        key   stable identifier of the *violating construct* for known-finding matching
              (defaults to site + '|' + what)
        where file:line for the report only (never part of a key)
        """
        if rid not in self.rules:
            raise AnalysisError(f"rule {rid} used before being declared")
        self.floors[rid][1] += 1
        rec = {
            "rule": f"{self.prop}.{rid}",
            "site": site,
            "what": what,
            "ok": bool(ok),
        }
        if where:
            rec["where"] = where
        if detail:
            rec["detail"] = detail
        if path:
            rec["path"] = path
        self.obligations.append(rec)
        if not ok:
            k = key or f"{site}|{what}"
            rec["key"] = k
            hit = None
            for kf in self.known:
                if kf.get("rule") == rec["rule"] and kf.get("key") == k:
                    hit = kf
                    break
            if hit is not None:
                rec["known"] = True
                self.known_hits.append((rec, hit))
            else:
                self.violations.append(rec)
        return bool(ok)

    def note(self, text):
        self.notes.append(text)

    # ------------------------------------------------------------- finishing
    def finish(self):
        """Print the report, write evidence, return the exit code."""
        # a rule that sees fewer constructs than were confirmed by hand cannot vouch for the tree (exit 2) -
        # unless it has something definite to report: a violation found is reported as such (exit 1)
        for rid, (floor, count) in self.floors.items():
            if count < floor:
                msg = (
                    f"rule {self.prop}.{rid} matched {count} instance(s), floor is {floor}: "
                    "the rule no longer sees the constructs confirmed by hand"
                )
                if not self.violations:
                    raise AnalysisError(msg)
                self.notes.append("floor deficit next to reported violations: " + msg)
        os.makedirs(self.evidence_dir, exist_ok=True)
        replay_dir = os.path.join(self.evidence_dir, "replay")
        wall = time.time() - self.t0
        n_ob = len(self.obligations)
        n_ok = sum(1 for o in self.obligations if o["ok"])
        distinct = len({(o["rule"], o["site"], o["what"]) for o in self.obligations})
        print(
            f"[{self.prop}] tier={self.tier} repo={self.repo.root} rules={len(self.rules)} "
            f"obligations={n_ob} discharged={n_ok} known={len(self.known_hits)} "
            f"violations={len(self.violations)} wall={wall:.2f}s"
        )
        for rid, text in self.rules.items():
            floor, count = self.floors[rid]
            bad = sum(1 for o in self.obligations if o["rule"] == f"{self.prop}.{rid}" and not o["ok"])
            print(f"  {self.prop}.{rid}: {count} instance(s) (floor {floor}), {bad} unmet — {text}")
        for rec, kf in self.known_hits:
            print(
                f"KNOWN-FINDING: property={self.prop} rule={rec['rule']} {rec.get('where', rec['site'])} "
                f"{kf.get('what', rec['what'])}"
            )
        matched = {id(kf) for _, kf in self.known_hits}
        for kf in self.known:
            if id(kf) not in matched:
                print(
                    f"NOTE: listed known finding no longer observed: rule={kf.get('rule')} key={kf.get('key')}"
                )
        for i, rec in enumerate(self.violations):
            os.makedirs(replay_dir, exist_ok=True)
            rp = os.path.join(replay_dir, f"{self.prop}-{i}.json")
            with open(rp, "w") as f:
                json.dump(rec, f, indent=1)
            print(
                f"  VIOLATED {rec['rule']} at {rec.get('where', rec['site'])} [{rec['site']}]: {rec['what']}"
                + (f" — {rec['detail']}" if rec.get("detail") else "")
            )
            if rec.get("path"):
                print(f"    path: {rec['path']}")
            print(f"VIOLATION property={self.prop} replay={rp}")
        samples = []
        per_rule = {}
        for o in self.obligations:
            per_rule.setdefault(o["rule"], []).append(o)
        for r, obs in per_rule.items():
            samples += obs[:3]
        ev = {
            "property_id": self.prop,
            "tier": self.tier,
            "seed": self.seed,
            "level": "other",
            "coverage": {
                "explanation": (
                    "Static analysis of the working tree (no code of the analysed tree is run on "
                    "inputs). Rules applied: "
                    + "; ".join(f"{self.prop}.{k}: {v}" for k, v in self.rules.items())
                ),
                "obligations": n_ob,
                "discharged": n_ok,
                "evaluations": max(n_ob, 1),
                "distinct_nontrivial": distinct,
                "rule": "one obligation per (rule, construct) instance found in the current source; "
                "distinct = distinct (rule, site, obligation) triples",
                "samples": samples[:40],
                "rule_instances": {f"{self.prop}.{k}": v[1] for k, v in self.floors.items()},
                "instance_floors": {f"{self.prop}.{k}": v[0] for k, v in self.floors.items()},
                "files": dict(sorted(self.repo.digests.items())),
                "known_findings_matched": [
                    {"rule": r["rule"], "key": r["key"], "what": k.get("what")} for r, k in self.known_hits
                ],
                "violations_found": self.violations[:50],
                "not_decided": self.not_decided,
                "notes": self.notes,
                **self.extra,
            },
            "assumptions": [
                "callees outside the repository (stdlib, PLY LR driver, sqlite) behave as documented",
                "the rules decide the listed structural clauses, not the run-time behaviour",
                "dynamic dispatch through user-registered events/aliases/xontribs is outside the analysis",
            ],
            "wall_s": round(wall, 3),
            "violations": len(self.violations),
        }
        with open(os.path.join(self.evidence_dir, f"{self.prop}.json"), "w") as f:
            json.dump(ev, f, indent=1, default=str)
        return 1 if self.violations else 0
