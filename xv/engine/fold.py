"""Constant folding of the declarative tables a module defines.

Evaluates *literal* table definitions — constants, set/tuple/list/dict displays,
``frozenset(..)``, f-strings, comprehensions over other folded tables, string
concatenation, ``.union`` — found as module-level assignments or as the return value of
a ``@lazyobject`` function without parameters.  This is the compiler's constant
folding, applied to data; no function of the analysed tree is called.  Anything else
raises NotConstant.
"""

from __future__ import annotations

import ast

from .loader import AnalysisError, FuncTypes, unparse
from . import dtable


class NotConstant(AnalysisError):
    pass


class Folder:
    def __init__(self, mod, extra_env=None):
        self.mod = mod
        self.cache = {}
        self.extra = extra_env or {}
        self._stack = []

    def name(self, n):
        if n in self.cache:
            return self.cache[n]
        if n in self.extra:
            return self.extra[n]
        if n in self._stack:
            raise NotConstant(f"{self.mod.rel}: recursive table definition {n}")
        self._stack.append(n)
        try:
            if n in self.mod.assigns:
                v = self.fold(self.mod.assigns[n][-1].value, {})
            elif n in self.mod.quals and isinstance(self.mod.quals[n], FuncTypes):
                fn = self.mod.quals[n]
                if fn.args.args or fn.args.kwonlyargs or fn.args.vararg or fn.args.kwarg:
                    raise NotConstant(f"{self.mod.rel}: {n} is a function with parameters")
                decos = [unparse(d) for d in fn.decorator_list]
                if not any("lazyobject" in d for d in decos):
                    raise NotConstant(f"{self.mod.rel}: {n} is not a lazyobject table")
                ps = [p for p in dtable.paths(fn) if p.outcome == "return"]
                if len(ps) != 1 or ps[0].conds:
                    raise NotConstant(f"{self.mod.rel}: {n} is not a straight-line table definition")
                v = self.fold(ps[0].value, {})
            else:
                raise NotConstant(f"{self.mod.rel}: no table named {n}")
        finally:
            self._stack.pop()
        self.cache[n] = v
        return v

    def fold(self, e, loc):
        f = self.fold
        if isinstance(e, ast.Constant):
            return e.value
        if isinstance(e, ast.Name):
            if e.id in loc:
                return loc[e.id]
            return self.name(e.id)
        if isinstance(e, ast.Tuple):
            return tuple(self._elts(e.elts, loc))
        if isinstance(e, ast.List):
            return list(self._elts(e.elts, loc))
        if isinstance(e, ast.Set):
            return frozenset(self._elts(e.elts, loc))
        if isinstance(e, ast.Dict):
            out = {}
            for k, v in zip(e.keys, e.values):
                if k is None:
                    out.update(f(v, loc))
                else:
                    out[f(k, loc)] = f(v, loc)
            return out
        if isinstance(e, ast.JoinedStr):
            parts = []
            for v in e.values:
                if isinstance(v, ast.Constant):
                    parts.append(str(v.value))
                elif isinstance(v, ast.FormattedValue):
                    if v.format_spec is not None or v.conversion not in (-1, 115):
                        raise NotConstant(f"format spec in table f-string: {unparse(e)}")
                    parts.append(str(f(v.value, loc)))
            return "".join(parts)
        if isinstance(e, (ast.SetComp, ast.ListComp, ast.GeneratorExp)):
            res = []
            self._comp(e.generators, 0, dict(loc), lambda l: res.append(f(e.elt, l)))
            return frozenset(res) if isinstance(e, ast.SetComp) else res
        if isinstance(e, ast.DictComp):
            res = {}
            self._comp(e.generators, 0, dict(loc), lambda l: res.__setitem__(f(e.key, l), f(e.value, l)))
            return res
        if isinstance(e, ast.Call):
            fn = unparse(e.func)
            if fn.split(".")[-1] == "LazyObject" and e.args and isinstance(e.args[0], ast.Lambda) and not e.args[0].args.args:
                # LazyObject(lambda: <table>, globals(), "NAME"): the table, built on first use
                return f(e.args[0].body, loc)
            if fn in ("chr", "ord", "range", "len", "str") and not e.keywords:
                args = [f(a, loc) for a in e.args]
                if fn == "range":
                    if all(isinstance(a, int) for a in args) and (len(args) < 2 or abs(args[1] - args[0]) < 100000):
                        return list(range(*args))
                    raise NotConstant("range too large")
                return {"chr": chr, "ord": ord, "len": len, "str": str}[fn](*args)
            if fn in ("frozenset", "set", "tuple", "list", "sorted", "dict") and not e.keywords:
                args = [f(a, loc) for a in e.args]
                if fn in ("frozenset", "set"):
                    return frozenset(args[0]) if args else frozenset()
                if fn == "tuple":
                    return tuple(args[0]) if args else ()
                if fn == "list":
                    return list(args[0]) if args else []
                if fn == "sorted":
                    return sorted(args[0])
                if fn == "dict":
                    return dict(args[0]) if args else {}
            if isinstance(e.func, ast.Attribute) and e.func.attr in ("union", "difference", "intersection") and not e.keywords:
                base = frozenset(f(e.func.value, loc))
                for a in e.args:
                    other = frozenset(f(a, loc))
                    base = {"union": base | other, "difference": base - other, "intersection": base & other}[e.func.attr]
                return base
            if isinstance(e.func, ast.Attribute) and e.func.attr in ("format", "join", "replace", "lower", "upper") and not e.keywords:
                recv = f(e.func.value, loc)
                args = [f(a, loc) for a in e.args]
                if isinstance(recv, str):
                    return getattr(recv, e.func.attr)(*args)
            raise NotConstant(f"call in table definition: {unparse(e)[:80]}")
        if isinstance(e, ast.BinOp):
            l, r = f(e.left, loc), f(e.right, loc)
            if isinstance(e.op, ast.Add):
                return l + r
            if isinstance(e.op, ast.BitOr):
                return l | r
            if isinstance(e.op, ast.Sub):
                return l - r
            if isinstance(e.op, ast.BitAnd):
                return l & r
            if isinstance(e.op, ast.Mod) and isinstance(l, str):
                return l % r
            if isinstance(e.op, ast.Mult) and isinstance(l, (str, tuple, list)) and isinstance(r, int):
                return l * r
            raise NotConstant(f"operator in table definition: {unparse(e)[:80]}")
        if isinstance(e, ast.Compare) and len(e.ops) == 1:
            l, r = f(e.left, loc), f(e.comparators[0], loc)
            op = e.ops[0]
            if isinstance(op, ast.Eq):
                return l == r
            if isinstance(op, ast.NotEq):
                return l != r
            if isinstance(op, ast.In):
                return l in r
            if isinstance(op, ast.NotIn):
                return l not in r
            raise NotConstant(f"comparison in table definition: {unparse(e)[:80]}")
        if isinstance(e, ast.BoolOp):
            vals = [f(v, loc) for v in e.values]
            return all(vals) if isinstance(e.op, ast.And) else any(vals)
        if isinstance(e, ast.UnaryOp) and isinstance(e.op, ast.Not):
            return not f(e.operand, loc)
        if isinstance(e, ast.UnaryOp) and isinstance(e.op, ast.USub):
            return -f(e.operand, loc)
        if isinstance(e, ast.IfExp):
            return f(e.body, loc) if f(e.test, loc) else f(e.orelse, loc)
        if isinstance(e, ast.Starred):
            raise NotConstant("starred outside display")
        if isinstance(e, ast.Attribute):
            raise NotConstant(f"attribute in table definition: {unparse(e)[:80]}")
        raise NotConstant(f"cannot fold {type(e).__name__}: {unparse(e)[:80]}")

    def _elts(self, elts, loc):
        out = []
        for x in elts:
            if isinstance(x, ast.Starred):
                out.extend(self.fold(x.value, loc))
            else:
                out.append(self.fold(x, loc))
        return out

    def _comp(self, gens, i, loc, emit):
        if i == len(gens):
            emit(loc)
            return
        g = gens[i]
        it = self.fold(g.iter, loc)
        try:
            seq = sorted(it) if isinstance(it, (set, frozenset)) else list(it)
        except TypeError:
            seq = list(it)
        for v in seq:
            l2 = dict(loc)
            self._bind(g.target, v, l2)
            if all(self.fold(c, l2) for c in g.ifs):
                self._comp(gens, i + 1, l2, emit)

    def _bind(self, target, v, loc):
        if isinstance(target, ast.Name):
            loc[target.id] = v
        elif isinstance(target, (ast.Tuple, ast.List)):
            for t, x in zip(target.elts, v):
                self._bind(t, x, loc)
        else:
            raise NotConstant("comprehension target")
