"""Statement-level control-flow graph and path queries (DESIGN.md Appendix A).

Nodes are statements (compound statements contribute a header node).  Exception
edges exist only where the function itself makes them observable: every statement
lexically inside a ``try`` body / handler / ``with`` body gets an ``exc`` edge that is
routed to the handlers, through (a copy of) each enclosing ``finally`` and finally to
the RAISE exit.  ``finally`` bodies are duplicated per continuation kind so that
"on all exits" is decided per kind.
"""

from __future__ import annotations

import ast
from collections import deque

from .loader import FuncTypes, unparse, short


class N:
    __slots__ = ("kind", "ast", "tag", "succ", "pred", "id")

    def __init__(self, kind, node=None, tag=""):
        self.kind = kind
        self.ast = node
        self.tag = tag
        self.succ: list[tuple[N, str | None]] = []
        self.pred: list[tuple[N, str | None]] = []
        self.id = -1

    @property
    def line(self):
        return getattr(self.ast, "lineno", 0)

    def text(self):
        if self.kind in ("entry", "exit", "raise"):
            return f"<{self.kind}>"
        a = self.ast
        if self.kind in ("if", "while"):
            return f"{self.kind} {short(a.test, 80)}"
        if self.kind == "for":
            return f"for {short(a.target, 30)} in {short(a.iter, 50)}"
        if self.kind == "with":
            return "with " + ", ".join(short(i, 50) for i in a.items)
        if self.kind == "with_exit":
            return "<with-exit " + ", ".join(short(i.context_expr, 40) for i in a.items) + ">"
        if self.kind == "finally":
            return f"<finally:{self.tag}>"
        if self.kind == "handler":
            return "except " + (short(a.type, 40) if a.type is not None else "")
        if self.kind == "match":
            return f"match {short(a.subject, 60)}"
        if self.kind == "case":
            return f"case {short(a.pattern, 60)}"
        return short(a, 100)

    def __repr__(self):
        return f"N#{self.id}:{self.line}:{self.text()}"


class _Frame:
    __slots__ = ("kind", "body", "node", "handlers", "catchall", "breaks", "header", "cache", "tag")

    def __init__(self, kind, **kw):
        self.kind = kind
        self.body = kw.get("body")
        self.node = kw.get("node")
        self.handlers = kw.get("handlers")
        self.catchall = kw.get("catchall", False)
        self.breaks = []
        self.header = kw.get("header")
        self.cache = {}
        self.tag = kw.get("tag", "")


_CATCHALL = ("BaseException", "Exception")


def _handler_names(h):
    t = h.type
    if t is None:
        return [None]
    elts = t.elts if isinstance(t, ast.Tuple) else [t]
    out = []
    for e in elts:
        if isinstance(e, ast.Name):
            out.append(e.id)
        elif isinstance(e, ast.Attribute):
            out.append(e.attr)
        else:
            out.append("?")
    return out


class CFG:
    def __init__(self, func, catchall=_CATCHALL):
        """``func``: FunctionDef / AsyncFunctionDef, or a list of statements."""
        self.func = func
        self.catchall = tuple(catchall)
        self.nodes: list[N] = []
        self.entry = self._new("entry")
        self.exit = self._new("exit")
        self.raise_exit = self._new("raise")
        body = func.body if isinstance(func, FuncTypes + (ast.Module,)) else list(func)
        front = self._block(body, [(self.entry, None)], [])
        self._connect(front, self.exit)
        self._by_ast: dict[int, list[N]] = {}
        for n in self.nodes:
            if n.ast is not None:
                self._by_ast.setdefault(id(n.ast), []).append(n)

    # ---------------------------------------------------------------- build
    def _new(self, kind, node=None, tag=""):
        n = N(kind, node, tag)
        n.id = len(self.nodes)
        self.nodes.append(n)
        return n

    @staticmethod
    def _edge(a, b, label):
        for s, l in a.succ:
            if s is b and l == label:
                return
        a.succ.append((b, label))
        b.pred.append((a, label))

    def _connect(self, front, node):
        for src, label in front:
            self._edge(src, node, label)

    def _block(self, stmts, front, frames):
        for s in stmts:
            if not front:
                # unreachable code after return/raise/...: still build it (detached)
                front = []
            front = self._stmt(s, front, frames)
        return front

    def _observable(self, frames):
        return any(f.kind in ("try", "finally", "with") for f in frames)

    def _exc(self, node, frames):
        # a `yield` is a point where the caller can throw into the generator (context
        # managers!): it always has an exceptional continuation, even outside a try
        has_yield = node.ast is not None and node.kind == "stmt" and any(isinstance(x, (ast.Yield, ast.YieldFrom)) for x in ast.walk(node.ast))
        if self._observable(frames) or has_yield:
            self._jump([(node, "exc")], "raise", frames)

    def _jump(self, front, kind, frames):
        i = len(frames) - 1
        while i >= 0 and front:
            fr = frames[i]
            if fr.kind in ("finally", "with"):
                if kind in fr.cache:
                    self._connect(front, fr.cache[kind])
                    return
                if fr.kind == "finally":
                    marker = self._new("finally", fr.node, kind)
                    fr.cache[kind] = marker
                    self._connect(front, marker)
                    front = self._block(fr.body, [(marker, None)], frames[:i])
                else:
                    marker = self._new("with_exit", fr.node, kind)
                    fr.cache[kind] = marker
                    self._connect(front, marker)
                    front = [(marker, None)]
            elif fr.kind == "loop":
                if kind == "break":
                    fr.breaks.extend(front)
                    return
                if kind == "continue":
                    for src, label in front:
                        self._edge(src, fr.header, label or "back")
                    return
            elif fr.kind == "inline":
                if kind == "xvreturn":
                    fr.breaks.extend(front)
                    return
            elif fr.kind == "try":
                if kind == "raise":
                    for h in fr.handlers:
                        for src, label in front:
                            self._edge(src, h, "exc")
                    if fr.catchall:
                        return
            i -= 1
        if not front:
            return
        if kind == "return":
            self._connect(front, self.exit)
        elif kind == "raise":
            self._connect(front, self.raise_exit)
        else:  # break/continue outside loop: malformed; treat as exit
            self._connect(front, self.exit)

    def _stmt(self, s, front, frames):
        if isinstance(s, ast.If):
            n = self._new("if", s)
            self._connect(front, n)
            self._exc(n, frames)
            t = self._block(s.body, [(n, "true")], frames)
            f = self._block(s.orelse, [(n, "false")], frames) if s.orelse else [(n, "false")]
            return t + f
        if isinstance(s, ast.While):
            n = self._new("while", s)
            self._connect(front, n)
            self._exc(n, frames)
            lf = _Frame("loop", header=n)
            body = self._block(s.body, [(n, "true")], frames + [lf])
            for src, label in body:
                self._edge(src, n, label or "back")
            const_true = isinstance(s.test, ast.Constant) and bool(s.test.value)
            out = []
            if not const_true:
                out = self._block(s.orelse, [(n, "false")], frames) if s.orelse else [(n, "false")]
            return out + lf.breaks
        if isinstance(s, (ast.For, ast.AsyncFor)):
            n = self._new("for", s)
            self._connect(front, n)
            self._exc(n, frames)
            lf = _Frame("loop", header=n)
            body = self._block(s.body, [(n, "iter")], frames + [lf])
            for src, label in body:
                self._edge(src, n, label or "back")
            out = self._block(s.orelse, [(n, "done")], frames) if s.orelse else [(n, "done")]
            return out + lf.breaks
        if isinstance(s, ast.With) and len(s.items) == 1 and isinstance(s.items[0].context_expr, ast.Name) and s.items[0].context_expr.id == "__xv_inline__":
            # expanded helper (engine/inline.py): not a context manager; `raise __xv_return__` inside jumps to its end
            n = self._new("inline", s)
            self._connect(front, n)
            inf = _Frame("inline", node=s)
            body = self._block(s.body, [(n, None)], frames + [inf])
            return body + inf.breaks
        if isinstance(s, (ast.With, ast.AsyncWith)):
            n = self._new("with", s)
            self._connect(front, n)
            self._exc(n, frames)
            wf = _Frame("with", node=s)
            body = self._block(s.body, [(n, None)], frames + [wf])
            if body:
                marker = self._new("with_exit", s, "fall")
                self._connect(body, marker)
                return [(marker, None)]
            return []
        if isinstance(s, (ast.Try, getattr(ast, "TryStar", ast.Try))):
            return self._try(s, front, frames)
        if isinstance(s, ast.Match):
            n = self._new("match", s)
            self._connect(front, n)
            self._exc(n, frames)
            out = []
            cur = [(n, None)]
            for case in s.cases:
                c = self._new("case", case)
                self._connect(cur, c)
                out += self._block(case.body, [(c, "true")], frames)
                irrefutable = (
                    case.guard is None
                    and isinstance(case.pattern, ast.MatchAs)
                    and case.pattern.pattern is None
                )
                cur = [] if irrefutable else [(c, "false")]
            return out + cur
        if isinstance(s, ast.Return):
            n = self._new("stmt", s)
            self._connect(front, n)
            self._exc(n, frames) if s.value is not None and _may_raise(s.value) else None
            self._jump([(n, None)], "return", frames)
            return []
        if isinstance(s, ast.Raise) and isinstance(s.exc, ast.Name) and s.exc.id == "__xv_return__":
            n = self._new("inline_return", s)
            self._connect(front, n)
            self._jump([(n, None)], "xvreturn", frames)
            return []
        if isinstance(s, ast.Raise):
            n = self._new("stmt", s)
            self._connect(front, n)
            self._jump([(n, "raise")], "raise", frames)
            return []
        if isinstance(s, ast.Break):
            n = self._new("stmt", s)
            self._connect(front, n)
            self._jump([(n, None)], "break", frames)
            return []
        if isinstance(s, ast.Continue):
            n = self._new("stmt", s)
            self._connect(front, n)
            self._jump([(n, None)], "continue", frames)
            return []
        # simple statement (incl. nested def/class treated as a binding statement)
        n = self._new("stmt", s)
        self._connect(front, n)
        if not isinstance(s, (ast.Pass, ast.Global, ast.Nonlocal) + FuncTypes + (ast.ClassDef,)):
            if _may_raise(s):
                self._exc(n, frames)
        return [(n, None)]

    def _try(self, s, front, frames):
        fin = _Frame("finally", body=s.finalbody, node=s) if s.finalbody else None
        outer = frames + ([fin] if fin else [])
        hnodes = [self._new("handler", h) for h in s.handlers]
        catchall = any(
            (nm is None or nm in self.catchall) for h in s.handlers for nm in _handler_names(h)
        )
        tf = _Frame("try", handlers=hnodes, catchall=catchall)
        body = self._block(s.body, front, outer + ([tf] if hnodes else []))
        fronts = self._block(s.orelse, body, outer) if s.orelse else body
        for h, hn in zip(s.handlers, hnodes):
            fronts = fronts + self._block(h.body, [(hn, None)], outer)
        if fin:
            if not fronts:
                return []
            marker = self._new("finally", s, "fall")
            self._connect(fronts, marker)
            return self._block(s.finalbody, [(marker, None)], frames)
        return fronts

    # -------------------------------------------------------------- queries
    def nodes_of(self, ast_node):
        """CFG nodes standing for the given statement (several if inside a finally)."""
        return list(self._by_ast.get(id(ast_node), []))

    def find(self, pred):
        return [n for n in self.nodes if n.ast is not None and pred(n)]

    def stmt_nodes(self, pred_ast):
        return [n for n in self.nodes if n.ast is not None and n.kind not in ("with_exit", "finally") and pred_ast(n.ast)]

    def reach(self, starts, stop=None, skip_edge=None, include_starts=False):
        """Nodes reachable from ``starts`` by >=1 edge; paths do not continue *through*
        nodes satisfying ``stop`` (they are reported as reached but not expanded)."""
        seen = {}
        dq = deque()
        for s in starts:
            dq.append(s)
            if include_starts:
                seen[s] = None
        expanded = set()
        while dq:
            n = dq.popleft()
            if n in expanded:
                continue
            expanded.add(n)
            for m, label in n.succ:
                if skip_edge is not None and skip_edge(n, m, label):
                    continue
                if m not in seen:
                    seen[m] = n
                    if stop is None or not stop(m):
                        dq.append(m)
        return seen

    def path_to(self, seen, target):
        path = [target]
        cur = target
        guard = 0
        while seen.get(cur) is not None and guard < 10000:
            cur = seen[cur]
            path.append(cur)
            guard += 1
        return list(reversed(path))

    def must_pass(self, start, pred, exits=("exit", "raise"), skip_edge=None):
        """Every path from ``start`` (exclusive) to an exit of the given kinds crosses a
        node satisfying ``pred``.  Returns (True, None) or (False, witness_path)."""
        starts = start if isinstance(start, (list, tuple, set)) else [start]
        seen = self.reach(starts, stop=pred, skip_edge=skip_edge)
        for ex in (self.exit, self.raise_exit):
            if ex.kind in exits and ex in seen and not pred(ex):
                p = self.path_to(seen, ex)
                return False, p
        return True, None

    def assume_edges(self, assumptions):
        """skip_edge predicate that prunes branch edges contradicting ``assumptions``
        ([(test_text, polarity)]): a later ``if`` on the *same* test cannot go the other way.
        Only sound when the names in the test are not re-bound in between (caller's duty:
        use ``stable_guards``)."""
        amap = {t: p for t, p in assumptions}

        def skip(a, b, label):
            if a.kind in ("if", "while") and label in ("true", "false"):
                # three-valued evaluation of the test under the assumptions: a conjunction of assumed-true atoms
                # cannot go the false way, one assumed-false conjunct forbids the true way (and dually for `or`)
                val = ev(a.ast.test)
                if val is not None and val != (label == "true"):
                    return True
            return False

        def ev(test):
            if isinstance(test, ast.UnaryOp) and isinstance(test.op, ast.Not):
                v = ev(test.operand)
                return None if v is None else not v
            t = unparse(test)
            if t in amap:
                return amap[t]
            if isinstance(test, ast.BoolOp):
                vs = [ev(v) for v in test.values]
                if isinstance(test.op, ast.And):
                    if any(v is False for v in vs):
                        return False
                    return True if all(v is True for v in vs) else None
                if any(v is True for v in vs):
                    return True
                return False if all(v is False for v in vs) else None
            return None

        return skip

    def stable_guards(self, node):
        """Guards of ``node`` whose test reads only names that are never assigned in the
        function body (parameters / globals): they keep their truth value afterwards."""
        import ast as _ast

        assigned = set()
        stores = {}
        body = self.func.body if hasattr(self.func, "body") else list(self.func)
        for st in body:
            for n in _ast.walk(st):
                if isinstance(n, _ast.Name) and isinstance(n.ctx, (_ast.Store, _ast.Del)):
                    assigned.add(n.id)
                    stores[n.id] = stores.get(n.id, 0) + 1
        # a local bound exactly once, by a plain top-level statement of the function (not inside a loop or branch), keeps
        # its value from there on: a test on it is as stable as a test on a parameter (`has_x = x is not None`)
        once = set()
        for st in body:
            if isinstance(st, _ast.Assign) and len(st.targets) == 1 and isinstance(st.targets[0], _ast.Name) and stores.get(st.targets[0].id) == 1:
                once.add(st.targets[0].id)
        assigned -= once
        out = []
        for test, pol in self.guards(node):
            names = {n.id for n in _ast.walk(test) if isinstance(n, _ast.Name)}
            has_call = any(isinstance(n, (_ast.Call, _ast.Attribute, _ast.Subscript)) for n in _ast.walk(test))
            if not (names & assigned) and not has_call:
                out.append((unparse(test), pol))
        return out

    def never_after(self, start, pred):
        """No node satisfying pred is reachable from start. (True,None)/(False,path)."""
        starts = start if isinstance(start, (list, tuple, set)) else [start]
        seen = self.reach(starts)
        for n in seen:
            if n.ast is not None and pred(n):
                return False, self.path_to(seen, n)
        return True, None

    def dominated(self, node, pred):
        """Every path entry -> node crosses a node satisfying pred (other than node)."""
        if node is self.entry:
            return False
        seen = self.reach([self.entry], stop=lambda m: m is not node and pred(m))
        if node in seen:
            # reached, but maybe only *as* a stop node; check that some non-pred path exists
            return False
        return True

    def edge_dominates(self, cond_node, label, node):
        """node is reachable from entry only through edge (cond_node, label)."""
        seen = self.reach(
            [self.entry], skip_edge=lambda a, b, l: a is cond_node and l == label
        )
        if node in seen:
            return False
        full = self.reach([self.entry])
        return node in full

    def guards(self, node):
        """[(test_expr, polarity)] for every branch edge that dominates ``node``."""
        out = []
        full = self.reach([self.entry])
        if node not in full:
            return out
        for c in self.nodes:
            if c.kind in ("if", "while") and c is not node:
                for label, pol in (("true", True), ("false", False)):
                    if not any(l == label for _, l in c.succ):
                        continue
                    seen = self.reach(
                        [self.entry], skip_edge=lambda a, b, l, c=c, label=label: a is c and l == label
                    )
                    if node not in seen:
                        out.append((c.ast.test, pol))
        return out

    def reachable_nodes(self):
        r = self.reach([self.entry], include_starts=True)
        return set(r)

    def fmt_path(self, path, limit=14):
        items = [f"{n.line}:{n.text()}" for n in path]
        if len(items) > limit:
            items = items[: limit // 2] + ["..."] + items[-limit // 2 :]
        return " -> ".join(items)


def _may_raise(node):
    """Conservative: anything containing a call, subscript, attribute access, binary
    operation, await/yield or import may raise."""
    for n in ast.walk(node):
        if isinstance(
            n,
            (
                ast.Call,
                ast.Subscript,
                ast.Attribute,
                ast.BinOp,
                ast.Await,
                ast.Yield,
                ast.YieldFrom,
                ast.Import,
                ast.ImportFrom,
                ast.Assert,
                ast.Delete,
                ast.Compare,
                ast.Starred,
            ),
        ):
            return True
    return False


# ---------------------------------------------------------------------------
# boolean structure helpers
# ---------------------------------------------------------------------------


def conjuncts(expr):
    """Flatten ``a and b and c`` into [a, b, c] (a single expr -> [expr])."""
    if isinstance(expr, ast.BoolOp) and isinstance(expr.op, ast.And):
        out = []
        for v in expr.values:
            out += conjuncts(v)
        return out
    return [expr]


def disjuncts(expr):
    if isinstance(expr, ast.BoolOp) and isinstance(expr.op, ast.Or):
        out = []
        for v in expr.values:
            out += disjuncts(v)
        return out
    return [expr]


def implied_facts(test, polarity):
    """Atomic facts (expr, truth) implied by ``test`` evaluating to ``polarity``.

    true  edge of ``a and b``  => a true, b true
    false edge of ``a or b``   => a false, b false
    ``not x`` flips.  Anything else is one atom.
    """
    out = []

    def rec(e, pol):
        if isinstance(e, ast.UnaryOp) and isinstance(e.op, ast.Not):
            rec(e.operand, not pol)
        elif isinstance(e, ast.BoolOp) and isinstance(e.op, ast.And) and pol:
            for v in e.values:
                rec(v, True)
        elif isinstance(e, ast.BoolOp) and isinstance(e.op, ast.Or) and not pol:
            for v in e.values:
                rec(v, False)
        else:
            out.append((e, pol))

    rec(test, polarity)
    return out


def facts_at(cfg: CFG, node):
    """All atomic facts known to hold whenever ``node`` executes (from dominating edges)."""
    out = []
    for test, pol in cfg.guards(node):
        out += implied_facts(test, pol)
    return out


def facts_text(facts):
    return [("" if pol else "not ") + unparse(e) for e, pol in facts]
