"""The running interpreter's abstract grammar, read from ``ast.<X>.__doc__`` (the ASDL
signatures CPython attaches to every node class)."""

from __future__ import annotations

import ast
import re

_FIELD = re.compile(r"\s*([A-Za-z_]+)([?*]?)\s+([A-Za-z_]+)\s*")


class Asdl:
    def __init__(self):
        self.kinds = {}  # constructor/product name -> [(type, quant, field)]
        self.sums = {}  # sum type -> [constructor names]
        for name in dir(ast):
            c = getattr(ast, name)
            if not (isinstance(c, type) and issubclass(c, ast.AST)) or not c.__doc__:
                continue
            doc = " ".join(c.__doc__.split())
            if doc.startswith("Deprecated"):
                continue
            m = re.match(r"^([A-Za-z_]+) = (.*)$", doc)
            if m and m.group(1) == name:
                alts = [a.strip() for a in self._split_alts(m.group(2))]
                self.sums[name] = [a.split("(")[0].strip() for a in alts]
                for a in alts:
                    self._kind(a)
            elif doc.startswith(name + "(") or doc == name:
                self._kind(doc)
        self.kinds.pop("AST", None)

    @staticmethod
    def _split_alts(s):
        out, depth, cur = [], 0, ""
        for ch in s:
            if ch == "(":
                depth += 1
            elif ch == ")":
                depth -= 1
            if ch == "|" and depth == 0:
                out.append(cur)
                cur = ""
            else:
                cur += ch
        out.append(cur)
        return out

    def _kind(self, sig):
        sig = sig.strip()
        if "(" not in sig:
            self.kinds.setdefault(sig, [])
            return
        name, rest = sig.split("(", 1)
        rest = rest.rsplit(")", 1)[0]
        fields = []
        for f in rest.split(","):
            m = _FIELD.fullmatch(f)
            if m:
                fields.append((m.group(1), m.group(2), m.group(3)))
        self.kinds[name.strip()] = fields

    def reachable(self, root="mod"):
        """All constructor / product names reachable from ``root``."""
        seen_types, out = set(), set()
        todo = [root]
        while todo:
            t = todo.pop()
            if t in seen_types:
                continue
            seen_types.add(t)
            names = self.sums.get(t, [t] if t in self.kinds else [])
            for n in names:
                if n in self.kinds:
                    out.add(n)
                    for ty, q, f in self.kinds[n]:
                        todo.append(ty)
        return out

    def required(self, name):
        return [f for ty, q, f in self.kinds.get(name, []) if q == ""]

    def int_fields(self, name):
        return [f for ty, q, f in self.kinds.get(name, []) if ty == "int"]

    def has_ctx(self, name):
        return any(ty == "expr_context" for ty, q, f in self.kinds.get(name, []))

    def sum_of(self, ctor):
        for s, cs in self.sums.items():
            if ctor in cs:
                return s
        return None
