"""Canonical form: single-use temporaries folded back into their use.

``t = <expr>`` immediately followed by a statement that reads ``t`` exactly once - unconditionally and before anything
with an effect is evaluated - is the same program as that statement with ``<expr>`` written in place, as long as ``t`` is
not read or written anywhere else in the function.  The rules are written against expression shapes (``return a < b``,
``if helper(x):``, ``f(g(x))``); a refactoring that names an intermediate result must not change a verdict, so every
function body is brought into the folded form when a module is loaded.  Nothing is reordered: the fold is refused
whenever the read is conditional (second operand of and/or, an arm of a conditional expression, a comprehension, a
lambda, a chained comparison's tail), when a call, await, yield or walrus is evaluated before it, or when the
statement kind is not one whose first-evaluated expression is known here.  Names keep their roles: a local read twice,
or later, stays.

The folded-in expression keeps its own source position and is tagged ``_xv_from_temp = <name>``.
"""

from __future__ import annotations

import ast

import os

FuncTypes = (ast.FunctionDef, ast.AsyncFunctionDef)
SPLIT = os.environ.get("XV_CANON_SPLIT", "1") != "0"
_SCOPES = FuncTypes + (ast.Lambda, ast.ListComp, ast.SetComp, ast.DictComp, ast.GeneratorExp, ast.ClassDef)


def _order_ok(e, name):
    """the single Load of ``name`` in expression ``e`` is reached unconditionally and before any call/await/yield"""
    st = {"impure": False, "found": False, "ok": False}

    def go(x, cond=False):
        if st["found"] or x is None:
            return
        if isinstance(x, ast.Name):
            if x.id == name and isinstance(x.ctx, ast.Load):
                st["found"] = True
                st["ok"] = (not cond) and not st["impure"]
            return
        if isinstance(x, ast.Constant):
            return
        if isinstance(x, ast.BoolOp):
            go(x.values[0], cond)
            for v in x.values[1:]:
                go(v, True)
            return
        if isinstance(x, ast.IfExp):
            go(x.test, cond)
            go(x.body, True)
            go(x.orelse, True)
            return
        if isinstance(x, ast.Compare):
            go(x.left, cond)
            go(x.comparators[0], cond)
            for c in x.comparators[1:]:
                go(c, True)
            return
        if isinstance(x, ast.Call):
            go(x.func, cond)
            for a in x.args:
                go(a, cond)
            for k in x.keywords:
                go(k.value, cond)
            if not st["found"]:
                st["impure"] = True
            return
        if isinstance(x, ast.Dict):
            for k, v in zip(x.keys, x.values):
                go(k, cond)
                go(v, cond)
            return
        if isinstance(x, (ast.Lambda, ast.ListComp, ast.SetComp, ast.DictComp, ast.GeneratorExp)):
            if any(isinstance(n, ast.Name) and n.id == name for n in ast.walk(x)):
                st["found"], st["ok"] = True, False
            else:
                st["impure"] = True
            return
        if isinstance(x, (ast.Await, ast.Yield, ast.YieldFrom, ast.NamedExpr)):
            for c in ast.iter_child_nodes(x):
                go(c, cond)
            if not st["found"]:
                st["impure"] = True
            return
        if isinstance(x, (ast.Attribute, ast.Subscript, ast.BinOp, ast.UnaryOp, ast.Tuple, ast.List, ast.Set, ast.Starred, ast.Slice, ast.JoinedStr, ast.FormattedValue)):
            for c in ast.iter_child_nodes(x):
                if isinstance(c, ast.expr):
                    go(c, cond)
            return
        # unknown expression kind: refuse
        if any(isinstance(n, ast.Name) and n.id == name for n in ast.walk(x)):
            st["found"], st["ok"] = True, False
        else:
            st["impure"] = True

    go(e)
    return st["found"] and st["ok"]


def _first_expr_slot(s, name):
    """(object, field) of the expression of statement ``s`` that is evaluated first and may host the fold, or None"""

    def mentions(e):
        return e is not None and any(isinstance(n, ast.Name) and n.id == name for n in ast.walk(e))

    if isinstance(s, (ast.Return, ast.Expr)):
        return (s, "value") if s.value is not None else None
    if isinstance(s, ast.Assign):
        if any(mentions(t) for t in s.targets):
            return None
        return (s, "value")
    if isinstance(s, ast.AugAssign):
        if not isinstance(s.target, ast.Name) or s.target.id == name:
            return None
        return (s, "value")
    if isinstance(s, ast.If):
        if any(mentions(x) for b in (s.body, s.orelse) for x in b):
            return None
        return (s, "test")
    if isinstance(s, ast.For):
        if mentions(s.target) or any(mentions(x) for b in (s.body, s.orelse) for x in b):
            return None
        return (s, "iter")
    if isinstance(s, ast.Raise):
        if mentions(s.cause):
            return None
        return (s, "exc") if s.exc is not None else None
    if isinstance(s, ast.With):
        it = s.items[0]
        if any(mentions(i.context_expr) or mentions(i.optional_vars) for i in s.items[1:]) or mentions(it.optional_vars) or any(mentions(x) for x in s.body):
            return None
        return (it, "context_expr")
    return None


class _Subst(ast.NodeTransformer):
    def __init__(self, name, value):
        self.name, self.value, self.n = name, value, 0

    def visit_Name(self, node):
        if node.id == self.name and isinstance(node.ctx, ast.Load):
            self.n += 1
            self.value._xv_from_temp = self.name  # type: ignore[attr-defined]
            return self.value
        return node


def _usage(fn):
    """name -> (stores, loads, escapes) over the whole function, nested scopes included"""
    stores, loads, nested = {}, {}, set()

    def walk(n, depth):
        for c in ast.iter_child_nodes(n):
            d = depth + 1 if isinstance(c, _SCOPES) else depth
            if isinstance(c, ast.Name):
                (stores if isinstance(c.ctx, (ast.Store, ast.Del)) else loads).setdefault(c.id, []).append(c)
                if depth > 0:
                    nested.add(c.id)
            elif isinstance(c, (ast.Global, ast.Nonlocal)):
                nested.update(c.names)
            elif isinstance(c, ast.ExceptHandler) and c.name:
                stores.setdefault(c.name, []).append(c)
            elif isinstance(c, (ast.MatchAs, ast.MatchStar)) and c.name:
                stores.setdefault(c.name, []).append(c)
            elif isinstance(c, ast.alias):
                stores.setdefault((c.asname or c.name).split(".")[0], []).append(c)
            walk(c, d)

    walk(fn, 0)
    for a in ast.walk(fn.args):
        if isinstance(a, ast.arg):
            stores.setdefault(a.arg, []).append(a)
    return stores, loads, nested


def fold_function(fn):
    """fold single-use temporaries of ``fn`` in place (nested functions are handled by their own call); returns the count"""
    total = 0
    # locals()/vars()/eval/exec make every local observable: leave such functions alone
    for n in ast.walk(fn):
        if isinstance(n, ast.Call) and isinstance(n.func, ast.Name) and n.func.id in ("locals", "vars", "eval", "exec"):
            return 0
    for _ in range(8):
        stores, loads, nested = _usage(fn)
        changed = False

        def do_block(stmts):
            nonlocal changed
            i = 0
            while i + 1 < len(stmts):
                s, nxt = stmts[i], stmts[i + 1]
                if isinstance(s, ast.Assign) and len(s.targets) == 1 and isinstance(s.targets[0], ast.Name) and getattr(s, "type_comment", None) is None:
                    name = s.targets[0].id
                    if name not in nested and len(stores.get(name, [])) == 1 and len(loads.get(name, [])) == 1 and not any(isinstance(x, (ast.Yield, ast.YieldFrom, ast.Await)) for x in ast.walk(s.value)):
                        slot = _first_expr_slot(nxt, name)
                        if slot is not None:
                            obj, fld = slot
                            e = getattr(obj, fld)
                            if e is not None and sum(1 for n in ast.walk(e) if isinstance(n, ast.Name) and n.id == name and isinstance(n.ctx, ast.Load)) == 1 and _order_ok(e, name):
                                sub = _Subst(name, s.value)
                                setattr(obj, fld, sub.visit(e))
                                if sub.n == 1:
                                    del stmts[i]
                                    changed = True
                                    return True
                i += 1
            return False

        def blocks(n):
            for fld in ("body", "orelse", "finalbody"):
                b = getattr(n, fld, None)
                if isinstance(b, list) and b and isinstance(b[0], ast.stmt):
                    yield b
            for h in getattr(n, "handlers", []) or []:
                yield h.body
            for c in getattr(n, "cases", []) or []:
                yield c.body

        def visit(n):
            for b in blocks(n):
                if do_block(b):
                    return True
                for s in b:
                    if isinstance(s, FuncTypes + (ast.ClassDef,)):
                        continue
                    if visit(s):
                        return True
            return False

        if visit(fn):
            total += 1
            # usage tables are stale after a fold: recompute
            continue
        if not changed:
            break
    return total


def _plain_target(t):
    """a name, or a flat tuple/list of names (`a, b = X if c else Y`)"""
    return isinstance(t, ast.Name) or (isinstance(t, (ast.Tuple, ast.List)) and t.elts and all(isinstance(x, ast.Name) for x in t.elts))


def _copy_target(t):
    if isinstance(t, ast.Name):
        return ast.copy_location(ast.Name(id=t.id, ctx=ast.Store()), t)
    return ast.copy_location(type(t)(elts=[_copy_target(x) for x in t.elts], ctx=ast.Store()), t)


def split_conditionals(tree):
    """`x = A if c else B` / `return A if c else B` (conditional expression at the top of the value, plain-name target)
    become the if/else statement with the same two assignments / returns.  Same program; one shape for the rules, which
    then see the two outcomes as two paths.  Applied inside functions only."""
    n = 0

    def block(stmts):
        nonlocal n
        out = []
        for s in stmts:
            for fld in ("body", "orelse", "finalbody"):
                b = getattr(s, fld, None)
                if isinstance(b, list) and b and isinstance(b[0], ast.stmt) and not isinstance(s, (ast.ClassDef,) + FuncTypes):
                    setattr(s, fld, block(b))
            for h in getattr(s, "handlers", []) or []:
                h.body = block(h.body)
            for c in getattr(s, "cases", []) or []:
                c.body = block(c.body)
            out += split(s)
        return out

    def split(s):
        nonlocal n
        if isinstance(s, (ast.Assign, ast.Return)) and isinstance(s.value, ast.IfExp) and not any(isinstance(x, ast.NamedExpr) for x in ast.walk(s.value.test)):
            e = s.value
            if isinstance(s, ast.Return):
                a, b = ast.Return(value=e.body), ast.Return(value=e.orelse)
            elif len(s.targets) == 1 and _plain_target(s.targets[0]) and getattr(s, "type_comment", None) is None:
                a = ast.Assign(targets=[_copy_target(s.targets[0])], value=e.body, type_comment=None)
                b = ast.Assign(targets=[_copy_target(s.targets[0])], value=e.orelse, type_comment=None)
            else:
                return [s]
            n += 1
            for x in (a, b):
                ast.copy_location(x, s)
            node = ast.If(test=e.test, body=split(a), orelse=split(b))
            ast.copy_location(node, s)
            node._xv_from_ifexp = True  # type: ignore[attr-defined]
            return [node]
        return [s]

    for node in ast.walk(tree):
        if isinstance(node, FuncTypes):
            node.body = block(node.body)
    return n


def fold_module(tree):
    n = split_conditionals(tree) if SPLIT else 0
    for node in ast.walk(tree):
        if isinstance(node, FuncTypes):
            # fold repeatedly: one fold per pass keeps the usage tables exact
            while True:
                k = fold_function(node)
                n += k
                if not k:
                    break
    return n
