"""Finite-language view of a regular expression's syntax tree (re._parser).

``top_groups(pattern)`` returns, for a pattern that is a concatenation of capturing
groups (plus anchors), the finite set of strings each group can match.  Patterns using
unbounded repetition or negated classes raise NotFinite.  No string is matched
against the pattern: the language is computed from the syntax tree.
"""

from __future__ import annotations

import re._constants as C
import re._parser as P

from .loader import AnalysisError


class NotFinite(AnalysisError):
    pass


LIMIT = 20000


def _lang(items):
    """Language of a sequence of (op, av) items as a set of strings."""
    acc = {""}
    for op, av in items:
        nxt = _one(op, av)
        acc = {a + b for a in acc for b in nxt}
        if len(acc) > LIMIT:
            raise NotFinite("regex language too large")
    return acc


def _one(op, av):
    if op is C.LITERAL:
        return {chr(av)}
    if op is C.SUBPATTERN:
        return _lang(av[3])
    if op is C.BRANCH:
        out = set()
        for alt in av[1]:
            out |= _lang(alt)
        return out
    if op is C.MAX_REPEAT or op is C.MIN_REPEAT:
        lo, hi, sub = av
        if hi is C.MAXREPEAT or hi > 4:
            raise NotFinite("unbounded repetition")
        base = _lang(sub)
        out = set()
        cur = {""}
        for i in range(0, hi + 1):
            if i >= lo:
                out |= cur
            cur = {a + b for a in cur for b in base}
        return out
    if op is C.IN:
        out = set()
        for o, a in av:
            if o is C.LITERAL:
                out.add(chr(a))
            elif o is C.RANGE:
                lo, hi = a
                if hi - lo > 128:
                    raise NotFinite("large range")
                out |= {chr(c) for c in range(lo, hi + 1)}
            elif o is C.CATEGORY and a is C.CATEGORY_DIGIT:
                out |= set("0123456789")
            else:
                raise NotFinite(f"character class item {o}")
        return out
    if op is C.AT:
        return {""}
    raise NotFinite(f"regex op {op}")


def top_groups(pattern):
    """[(group_number | None, language)] for each top-level item of the pattern."""
    tree = P.parse(pattern)
    out = []
    for op, av in tree:
        if op is C.SUBPATTERN:
            out.append((av[0], _lang(av[3])))
        elif op is C.AT:
            out.append((None, {""}))
        else:
            out.append((None, _one(op, av)))
    return out


def char_class_members(pattern):
    """All characters listed in the character classes of a pattern, and the literal
    characters outside classes (for 'which characters does this regex mention')."""
    tree = P.parse(pattern)
    chars = set()

    def walk(items):
        for op, av in items:
            if op is C.LITERAL:
                chars.add(chr(av))
            elif op is C.IN:
                for o, a in av:
                    if o is C.LITERAL:
                        chars.add(chr(a))
                    elif o is C.RANGE:
                        for c in range(a[0], min(a[1], a[0] + 256) + 1):
                            chars.add(chr(c))
                    elif o is C.CATEGORY:
                        chars.add(("category", str(a)))
                    elif o is C.NEGATE:
                        chars.add(("negate", ""))
            elif op is C.SUBPATTERN:
                walk(av[3])
            elif op is C.BRANCH:
                for alt in av[1]:
                    walk(alt)
            elif op in (C.MAX_REPEAT, C.MIN_REPEAT):
                walk(av[2])
            elif op in (C.ASSERT, C.ASSERT_NOT):
                walk(av[1])

    walk(tree)
    return chars
